"""Engine kx: Kani on the real crate.  A scratch copy of /repo's working tree gets one line
per harness file appended to the parent source file (`#[cfg(kani)] #[path=..] mod ..;`), so
that harnesses are child modules and see private items; nothing in /repo is modified.
"""
import os, re, shutil, subprocess, tempfile, time, json, glob

REPO = os.environ.get("VERIF_REPO", "/repo")
VERIF = os.path.dirname(os.path.dirname(os.path.abspath(__file__)))
KANI_DIR = os.path.join(VERIF, "kani")
KANI_FLAGS = ["-Z", "function-contracts", "-Z", "stubbing", "-Z", "mem-predicates", "-Z", "unstable-options"]


class InfraError(Exception):
    pass


class Harness:
    def __init__(self, name, file, parent, attrs, line):
        self.name, self.file, self.parent, self.line = name, file, parent, line
        self.props = attrs.get("props", "").split(",") if attrs.get("props") else []
        self.tier = attrs.get("tier", "quick")
        self.kind = attrs.get("kind", "Kinf")        # Kinf | Kstruct | Kbounded
        self.expect = attrs.get("expect", "pass")    # pass | panic:<fn-regex>
        self.bound = attrs.get("bound", "")
        self.fns = attrs.get("fns", "").split(",") if attrs.get("fns") else []
        self.features = attrs.get("features", "")
        self.note = attrs.get("note", "")
        self.timeout = int(attrs.get("timeout", "900"))
        self.covers = attrs.get("covers", "all")      # all | any  (vacuity guard)
        self.leak = attrs.get("leak", "0") == "1"     # run with CBMC --memory-leak-check
        self.nounwind = attrs.get("nounwind", "0") == "1"   # liar loops: no unwinding assertions (bounded)
        self.stubs = attrs.get("_stubs", [])


    def qualified(self):
        """fully qualified harness name as Kani prints it: module path of the parent + overlay module"""
        mod = self.parent[len("src/"):-len(".rs")].replace("/", "::")
        if mod == "lib":
            mod = ""
        stem = os.path.splitext(os.path.basename(self.file))[0]
        return (mod + "::" if mod else "") + "verif_" + stem + "::" + self.name


_OB_RE = re.compile(r"^\s*//\s*@ob\s+(.*)$")
_KV_RE = re.compile(r"(\w+)=((?:\"[^\"]*\")|\S+)")


def load_harnesses():
    """Scan /verif/kani/*.rs for `// @parent` and `// @ob` annotations."""
    hs = []
    for f in sorted(glob.glob(os.path.join(KANI_DIR, "*.rs"))):
        if os.path.basename(f).startswith("_"):
            continue
        lines = open(f).read().split("\n")
        parent = None
        pending = None
        stubs = []
        for n, l in enumerate(lines, 1):
            ms = re.match(r"^\s*#\[kani::stub\((.*)\)\]", l)
            if ms:
                stubs.append(ms.group(1).replace(" ", ""))
            m = re.match(r"^\s*//\s*@parent\s+(\S+)", l)
            if m:
                parent = m.group(1)
                continue
            m = _OB_RE.match(l)
            if m:
                kv = {k: v.strip('"') for k, v in _KV_RE.findall(m.group(1))}
                if pending is not None and "cont" in kv:
                    pending.update(kv)
                else:
                    pending = kv
                continue
            m = re.match(r"^\s*(?:pub\s+)?(?:unsafe\s+)?fn\s+(\w+)", l)
            if m and pending is not None:
                pending["_stubs"] = stubs
                hs.append(Harness(m.group(1), f, parent, pending, n))
                pending = None
            if m:
                stubs = []
        if parent is None and hs and hs[-1].file == f:
            raise InfraError("harness file without @parent: " + f)
    names = [h.name for h in hs]
    dup = set(n for n in names if names.count(n) > 1)
    if dup:
        raise InfraError("duplicate harness names: %s" % dup)
    return hs


def harness_files():
    """(file, parent, required feature or None) for every overlay file, including support files"""
    res = []
    for f in sorted(glob.glob(os.path.join(KANI_DIR, "*.rs"))):
        if os.path.basename(f).startswith("_"):
            continue
        parent, req = None, None
        for l in open(f):
            m = re.match(r"^\s*//\s*@parent\s+(\S+)", l)
            if m:
                parent = m.group(1)
            m = re.match(r"^\s*//\s*@requires\s+(\S+)", l)
            if m:
                req = m.group(1)
        if parent:
            res.append((f, parent, req))
    return res


class Scratch:
    def __init__(self, features=""):
        self.dir = tempfile.mkdtemp(prefix="bytes-kx-")
        self.features = features
    def __enter__(self):
        subprocess.run(["rsync", "-a", "--exclude", "target", "--exclude", ".git", REPO + "/", self.dir + "/"], check=True)
        by_parent = {}
        for f, parent, req in harness_files():
            by_parent.setdefault(parent, []).append((f, req))
        for parent, files in by_parent.items():
            p = os.path.join(self.dir, parent)
            if not os.path.exists(p):
                raise InfraError("lost anchor: parent source file %s" % parent)
            with open(p, "a") as fh:
                fh.write("\n")
                for f, req in files:
                    mod = "verif_" + os.path.splitext(os.path.basename(f))[0]
                    cfg = "kani" if not req else 'all(kani, feature = "%s")' % req
                    fh.write('#[cfg(%s)] #[path = "%s"] pub(crate) mod %s;\n' % (cfg, f, mod))
        # crate-level feature gates some harnesses need are not required so far
        return self
    def __exit__(self, *a):
        shutil.rmtree(self.dir, ignore_errors=True)


_THREAD_RE = re.compile(r"^Thread (\d+): ?(.*)$")


def parse_terse(out):
    """-> {harness_short_name: {failed, total, unreachable, covers_sat, covers_total, failed_checks:[(desc,file,line,fn)], status, time}}"""
    res = {}
    cur_thread_harness = {}
    cur = None
    lines = out.split("\n")
    i = 0
    single = None
    while i < len(lines):
        l = lines[i]
        m = _THREAD_RE.match(l)
        body = l
        if m:
            body = m.group(2)
        mm = re.match(r"^Checking harness (\S+?)\.\.\.", body)
        if mm:
            full = mm.group(1)
            short = full.split("::")[-1]
            res.setdefault(short, {"full": full, "failed_checks": [], "status": None, "stubs": []})
            if m:
                cur_thread_harness[m.group(1)] = short
            else:
                single = short
            cur = short
            i += 1
            continue
        if m and body.strip() == "" :
            cur = cur_thread_harness.get(m.group(1))
            i += 1
            continue
        if m and body.strip().startswith("- Stub:"):
            h = cur_thread_harness.get(m.group(1))
            if h:
                res[h]["stubs"].append(body.strip())
            i += 1
            continue
        if cur is not None:
            r = res[cur]
            mm = re.match(r"^\s*\*\* (\d+) of (\d+) failed(?: \((.*)\))?", l)
            if mm:
                r["failed"], r["total"] = int(mm.group(1)), int(mm.group(2))
                extra = mm.group(3) or ""
                mu = re.search(r"(\d+) unreachable", extra)
                r["unreachable"] = int(mu.group(1)) if mu else 0
                mu = re.search(r"(\d+) undetermined", extra)
                r["undetermined"] = int(mu.group(1)) if mu else 0
            mm = re.match(r"^\s*\*\* (\d+) of (\d+) cover properties satisfied", l)
            if mm:
                r["covers_sat"], r["covers_total"] = int(mm.group(1)), int(mm.group(2))
            mm = re.match(r"^Failed Checks: (.*)$", l)
            if mm:
                desc = mm.group(1)
                loc = lines[i + 1] if i + 1 < len(lines) else ""
                ml = re.match(r'^\s*File: "([^"]*)", line (\d+), in (.+?)\s*$', loc)
                if ml:
                    r["failed_checks"].append((desc, ml.group(1), int(ml.group(2)), ml.group(3)))
                    i += 1
                else:
                    r["failed_checks"].append((desc, "", 0, ""))
            mm = re.match(r"^VERIFICATION:- (\w+)", l)
            if mm:
                r["status"] = mm.group(1)
            mm = re.match(r"^Verification Time: ([\d.]+)s", l)
            if mm:
                r["time"] = float(mm.group(1))
            if "CBMC timed out" in l or "timed out" in l.lower() and "harness" in l.lower():
                r["status"] = "TIMEOUT"
            if "out of memory" in l.lower() or "CBMC failed" in l or "unwinding assertion" in l:
                r.setdefault("notes", []).append(l.strip())
        i += 1
    return res


MEMCLASS_RE = re.compile(r"dereference failure|pointer|object bounds|deallocated|dead object|free|dealloc|memcpy|memmove|memset|memcmp|invalid|misaligned|uninit|double|never freed|with overflow|arithmetic overflow|offset|unwinding|same object|rust_alloc|rust_realloc|undefined|unreachable code|intrinsic assumption|unsafe precondition|assumption failed", re.I)


FRAME_RE = re.compile(r"is assignable|assigns clause|is freeable", re.I)


def run_kani(scratch, harnesses, jobs=14, features="", log_path=None, regular=False, timeout_each=900, leak=False, nounwind=False):
    names = [h.name for h in harnesses]
    cmd = ["cargo", "kani"] + KANI_FLAGS
    if features == "no-default":
        cmd += ["--no-default-features"]
    elif features:
        cmd += ["--features", features]
    for h in harnesses:
        cmd += ["--harness", h.qualified()]
    cmd += ["--exact"]     # without it Kani matches by substring (kx_get_u16 would also run kx_get_u16_le, ...)
    if not regular:
        cmd += ["-j", str(max(1, min(jobs, len(names)))), "--output-format", "terse"]
    cmd += ["--harness-timeout", "%ds" % timeout_each]
    if nounwind:
        cmd += ["--no-unwinding-checks"]
    if leak:
        cmd += ["--cbmc-args", "--memory-leak-check"]
    env = dict(os.environ)
    env["CARGO_NET_OFFLINE"] = "true"
    env.pop("RUSTUP_TOOLCHAIN", None)
    t0 = time.time()
    total_to = timeout_each * (1 + len(names) // max(1, jobs)) + 600
    try:
        pr = subprocess.run(cmd, cwd=scratch.dir, env=env, capture_output=True, text=True, timeout=total_to)
        out = pr.stdout + "\n" + pr.stderr
    except subprocess.TimeoutExpired as e:
        out = (e.stdout or b"").decode("utf-8", "replace") + "\nKX-GLOBAL-TIMEOUT\n"
    wall = time.time() - t0
    if log_path:
        os.makedirs(os.path.dirname(log_path), exist_ok=True)
        open(log_path, "w").write("$ " + " ".join(cmd) + "\n" + out)
    return " ".join(cmd), out, wall


def classify(h, r):
    """-> (verdict, detail) verdict in pass|violation|undecided"""
    if r is None or r.get("status") is None or "total" not in r:
        return "undecided", "no result (timeout / tool failure)"
    if r.get("status") == "TIMEOUT":
        return "undecided", "timeout"
    if r.get("undetermined"):
        return "undecided", "%d undetermined checks" % r["undetermined"]
    fc = r["failed_checks"]
    unsup = [c for c in fc if "not currently supported by Kani" in c[0] or "unsupported" in c[0].lower() or "unwinding assertion" in c[0]]
    if unsup:
        return "undecided", "unsupported construct / unwinding bound reached: %s" % (unsup[0],)
    if h.expect == "memsafe":
        # misbehaving-implementor harness: panics are allowed, memory-safety-class checks are not
        bad = [c for c in fc if MEMCLASS_RE.search(c[0])]
        if bad:
            return "violation", "memory-safety-class check failed: " + "; ".join("%s @ %s:%d in %s" % c for c in bad[:6])
        if "covers_total" in r and r["covers_sat"] == 0:
            return "undecided", "vacuity guard: no cover satisfied"
        return "pass", "%d panic-class check(s) failed (allowed), no memory-safety-class failure" % len(fc)
    if h.expect == "pass":
        if r["failed"] == 0 and r["status"] == "SUCCESSFUL":
            if "covers_total" in r and h.covers == "all" and r["covers_sat"] != r["covers_total"]:
                return "undecided", "vacuity guard: only %d of %d covers satisfied" % (r["covers_sat"], r["covers_total"])
            if "covers_total" in r and h.covers == "any" and r["covers_sat"] == 0:
                return "undecided", "vacuity guard: no cover satisfied"
            return "pass", ""
        if r["failed"] == 0:
            return "undecided", "status %s with 0 failed checks (covers?)" % r["status"]
        return "violation", "; ".join("%s @ %s:%d in %s" % c for c in fc[:6])
    if h.expect.startswith("panic:") or h.expect.startswith("maypanic:"):
        must = h.expect.startswith("panic:")
        rx = re.compile(h.expect.split(":", 1)[1])
        if r["failed"] == 0:
            if not must:
                if "covers_total" in r and r["covers_sat"] != r["covers_total"]:
                    return "undecided", "vacuity guard: only %d of %d covers satisfied" % (r["covers_sat"], r["covers_total"])
                return "pass", ""
            return "violation", "expected the documented panic in %s but every check passed (the call returned)" % rx.pattern
        # a memory-safety-class / arithmetic-overflow failure is never "the documented panic",
        # whatever function it sits in (debug would panic, release would wrap: seed C16-2)
        # ... and neither is a write outside the (empty) assigns clause of a panic-frame wrapper,
        # even when it sits in the very function whose panic is expected (seed C13-6)
        bad = [c for c in fc if MEMCLASS_RE.search(c[0]) or FRAME_RE.search(c[0]) or not rx.search("%s @ %s" % (c[0], c[3]))]
        if bad:
            return "violation", "failure outside the documented panic site: " + "; ".join("%s @ %s:%d in %s" % c for c in bad[:6])
        return "pass", "only the documented panic fails (%d check[s] in %s)" % (len(fc), rx.pattern)
    return "undecided", "bad expect"
