"""Small Rust lexer + item locator used by the mechanical extractor (engine vx)
and by the overlay/inventory steps of engine kx.

It understands: line comments, nested block comments, string / raw string / byte string
literals, char literals vs. lifetimes, identifiers, numbers and punctuation.  It never
interprets the code; it only needs correct token boundaries and brace matching so that
items can be located *by path* (never by line number) and copied byte-for-byte.
"""
import re

class Tok:
    __slots__ = ("kind", "text", "start", "end", "line")
    def __init__(self, kind, text, start, end, line):
        self.kind, self.text, self.start, self.end, self.line = kind, text, start, end, line
    def __repr__(self):
        return "Tok(%s,%r,%d)" % (self.kind, self.text, self.line)

_ident_re = re.compile(r"[A-Za-z_][A-Za-z0-9_]*")
_num_re = re.compile(r"[0-9][A-Za-z0-9_]*(\.[0-9][A-Za-z0-9_]*)?")
_PUNCT3 = ("<<=", ">>=", "...", "..=")
_PUNCT2 = ("::", "->", "=>", "==", "!=", "<=", ">=", "&&", "||", "+=", "-=", "*=", "/=",
           "%=", "^=", "&=", "|=", "<<", ">>", "..")


class LexError(Exception):
    pass


def lex(src, keep_comments=False):
    """Return list of Tok.  kinds: ident, num, str, char, life, punct, comment, doc."""
    toks = []
    i, n, line = 0, len(src), 1
    while i < n:
        c = src[i]
        if c == "\n":
            line += 1
            i += 1
            continue
        if c in " \t\r":
            i += 1
            continue
        if src.startswith("//", i):
            j = src.find("\n", i)
            if j < 0:
                j = n
            text = src[i:j]
            isdoc = (text.startswith("///") and not text.startswith("////")) or text.startswith("//!")
            if keep_comments or isdoc:
                toks.append(Tok("doc" if isdoc else "comment", text, i, j, line))
            i = j
            continue
        if src.startswith("/*", i):
            depth, j = 1, i + 2
            while j < n and depth:
                if src.startswith("/*", j):
                    depth += 1
                    j += 2
                elif src.startswith("*/", j):
                    depth -= 1
                    j += 2
                else:
                    j += 1
            text = src[i:j]
            if keep_comments:
                toks.append(Tok("comment", text, i, j, line))
            line += text.count("\n")
            i = j
            continue
        # raw strings r"..", r#".."#, br#".."#
        m = re.match(r"(b?r)(#*)\"", src[i:i + 40])
        if m:
            hashes = m.group(2)
            close = '"' + hashes
            j = src.find(close, i + len(m.group(0)))
            if j < 0:
                raise LexError("unterminated raw string at line %d" % line)
            j += len(close)
            text = src[i:j]
            toks.append(Tok("str", text, i, j, line))
            line += text.count("\n")
            i = j
            continue
        if c == '"' or (c == "b" and i + 1 < n and src[i + 1] == '"'):
            j = i + (2 if c == "b" else 1)
            while j < n and src[j] != '"':
                if src[j] == "\\":
                    j += 1
                j += 1
            j += 1
            text = src[i:j]
            toks.append(Tok("str", text, i, j, line))
            line += text.count("\n")
            i = j
            continue
        if c == "'" or (c == "b" and i + 1 < n and src[i + 1] == "'"):
            k = i + (1 if c == "b" else 0)
            # char literal or lifetime
            if src[k + 1] == "\\":
                j = k + 2
                while src[j] != "'":
                    j += 1
                j += 1
                toks.append(Tok("char", src[i:j], i, j, line))
                i = j
                continue
            if k + 2 < n and src[k + 2] == "'":
                j = k + 3
                toks.append(Tok("char", src[i:j], i, j, line))
                i = j
                continue
            m = _ident_re.match(src, k + 1)
            if m and c == "'":
                toks.append(Tok("life", src[i:m.end()], i, m.end(), line))
                i = m.end()
                continue
            # multi-byte char literal like 'é'
            j = src.find("'", k + 1) + 1
            toks.append(Tok("char", src[i:j], i, j, line))
            i = j
            continue
        m = _ident_re.match(src, i)
        if m:
            toks.append(Tok("ident", m.group(0), i, m.end(), line))
            i = m.end()
            continue
        m = _num_re.match(src, i)
        if m:
            # do not swallow `1..2` as a float
            text = m.group(0)
            if "." in text and src.startswith("..", i + text.index(".")):
                text = text[:text.index(".")]
            toks.append(Tok("num", text, i, i + len(text), line))
            i += len(text)
            continue
        for p in _PUNCT3:
            if src.startswith(p, i):
                toks.append(Tok("punct", p, i, i + 3, line))
                i += 3
                break
        else:
            for p in _PUNCT2:
                if src.startswith(p, i):
                    toks.append(Tok("punct", p, i, i + 2, line))
                    i += 2
                    break
            else:
                toks.append(Tok("punct", c, i, i + 1, line))
                i += 1
    return toks


OPEN = {"(": ")", "[": "]", "{": "}"}
CLOSE = {")": "(", "]": "[", "}": "{"}


def match_close(toks, i):
    """toks[i] is an opening bracket; return index of its matching close."""
    assert toks[i].text in OPEN, toks[i]
    depth = 0
    for j in range(i, len(toks)):
        t = toks[j]
        if t.kind != "punct":
            continue
        if t.text in OPEN:
            depth += 1
        elif t.text in CLOSE:
            depth -= 1
            if depth == 0:
                return j
    raise LexError("unbalanced bracket at line %d" % toks[i].line)


def norm(text):
    """Token-normalised text (whitespace- and comment-insensitive), generics' `>>` split."""
    out = []
    for t in lex(text):
        if t.kind in ("doc", "comment"):
            continue
        if t.text == ">>":
            out += [">", ">"]
        else:
            out.append(t.text)
    return out


def tokens_text(toks):
    out = []
    for t in toks:
        if t.kind in ("doc", "comment"):
            continue
        if t.text == ">>":
            out += [">", ">"]
        else:
            out.append(t.text)
    return out


class Item:
    """A located item: header tokens [h0,h1) and body braces [b0,b1] (indices into toks)."""
    def __init__(self, src, toks, attr0, h0, b0, b1, kind):
        self.src, self.toks = src, toks
        self.attr0, self.h0, self.b0, self.b1, self.kind = attr0, h0, b0, b1, kind
    @property
    def header(self):
        return self.toks[self.h0:self.b0]
    @property
    def header_text(self):
        return self.src[self.toks[self.h0].start:self.toks[self.b0].start].strip()
    @property
    def body_text(self):
        """text strictly between the braces"""
        return self.src[self.toks[self.b0].end:self.toks[self.b1].start]
    @property
    def full_text(self):
        return self.src[self.toks[self.h0].start:self.toks[self.b1].end]
    @property
    def line(self):
        return self.toks[self.h0].line
    def attrs(self):
        return self.toks[self.attr0:self.h0]


ITEM_KW = ("fn", "impl", "trait", "struct", "enum", "mod", "macro_rules", "const", "static", "type", "use")


def _skip_attrs_back(toks, i):
    """Given index i of first header token, walk back over attributes / doc comments."""
    j = i
    while j > 0:
        t = toks[j - 1]
        if t.kind == "doc":
            j -= 1
            continue
        if t.text == "]":
            # find matching [
            depth, k = 0, j - 1
            while k >= 0:
                if toks[k].text == "]":
                    depth += 1
                elif toks[k].text == "[":
                    depth -= 1
                    if depth == 0:
                        break
                k -= 1
            if k >= 1 and toks[k - 1].text == "#":
                j = k - 1
                continue
            if k >= 2 and toks[k - 1].text == "!" and toks[k - 2].text == "#":
                break
        break
    return j


def items_in(src, toks, lo, hi):
    """Yield Items found at brace depth 0 within toks[lo:hi]."""
    i = lo
    while i < hi:
        t = toks[i]
        if t.kind == "punct" and t.text in OPEN:
            i = match_close(toks, i) + 1
            continue
        if t.kind == "ident" and t.text in ("fn", "impl", "trait", "struct", "enum", "mod", "macro_rules", "union"):
            # header start: walk back over qualifiers
            h0 = i
            while h0 > lo and toks[h0 - 1].kind == "ident" and toks[h0 - 1].text in (
                    "pub", "unsafe", "const", "async", "extern", "default"):
                h0 -= 1
            if h0 > lo and toks[h0 - 1].text == ")" :
                # pub(crate) / pub(super)
                k = h0 - 1
                while toks[k].text != "(":
                    k -= 1
                if k > lo and toks[k - 1].text == "pub":
                    h0 = k - 1
            if h0 > lo and toks[h0 - 1].kind == "str" and h0 - 2 >= lo and toks[h0 - 2].text == "extern":
                h0 -= 2
            # find body `{` or terminating `;` at depth 0 (angle brackets are not tracked;
            # parens/brackets are)
            j = i + 1
            body = None
            while j < hi:
                tj = toks[j]
                if tj.kind == "punct":
                    if tj.text in ("(", "["):
                        j = match_close(toks, j) + 1
                        continue
                    if tj.text == "{":
                        body = (j, match_close(toks, j))
                        break
                    if tj.text == ";":
                        body = (j, j)
                        break
                j += 1
            if body is None:
                raise LexError("item without end at line %d" % t.line)
            attr0 = _skip_attrs_back(toks, h0)
            yield Item(src, toks, attr0, h0, body[0], body[1], t.text)
            i = body[1] + 1
            continue
        i += 1


class SourceFile:
    def __init__(self, path):
        self.path = path
        self.src = open(path, encoding="utf-8").read()
        self.toks = lex(self.src)
        self._top = None
    def top_items(self):
        if self._top is None:
            self._top = list(items_in(self.src, self.toks, 0, len(self.toks)))
        return self._top
    def find(self, header):
        """Find a top-level item whose normalised header equals norm(header).
        Headers are compared without leading visibility / `unsafe` qualifiers."""
        want = _strip_quals(norm(header))
        hits = [it for it in self.top_items() if _strip_quals(tokens_text(it.header)) == want]
        return hits
    def children(self, item):
        return list(items_in(self.src, self.toks, item.b0 + 1, item.b1))


def _strip_quals(tl):
    tl = list(tl)
    while tl and tl[0] in ("pub", "unsafe", "default"):
        tl.pop(0)
        if tl and tl[0] == "(":
            k = tl.index(")")
            del tl[:k + 1]
    return tl


def fn_name(item):
    hs = item.header
    for k, t in enumerate(hs):
        if t.text == "fn":
            return hs[k + 1].text
    return None
