"""Engine vx: mechanical extraction of functions from /repo/src into a single Verus file,
with contracts spliced from /verif/contracts/*.py, followed by `verus` and result parsing.

The exec text (function bodies, signatures, struct definitions) is always copied from the
current working tree; contracts/ contains only spec text.  Every transformation is logged
per function ("drops") and a fidelity check proves, on each run, that the emitted function
minus the spliced runs is token-identical to the source function.
"""
import json, os, re, subprocess, time, hashlib
from rustlex import lex, norm, tokens_text, SourceFile, match_close, fn_name, LexError, _strip_quals

REPO = os.environ.get("VERIF_REPO", "/repo")
SP, EP = "/*@+*/", "/*@-*/"       # markers around every spliced run


VERIF_FAIL_RE = re.compile(r"postcondition not satisfied|precondition not satisfied|assertion failed|invariant not satisfied"
                           r"|possible arithmetic (under|over)flow|possible division by zero|possible bit shift"
                           r"|decreases not satisfied|might not be allowed|unreachable_unchecked|not satisfied"
                           r"|failed to|could not prove|termination")


class InfraError(Exception):
    """lost anchor / fidelity mismatch / tool failure: undecided, never a violation"""


class Fn:
    def __init__(self, ret=None, spec="", loops=None, hints=None, mode="verify", note="",
                 drop_quals=(), props=None):
        self.ret, self.spec, self.loops, self.hints = ret, spec, loops or {}, hints or []
        self.mode, self.note, self.drop_quals, self.props = mode, note, drop_quals, props
        # mode: verify | external_body (body replaced; contract imported) | decl (no body in source)


class Unit:
    def __init__(self, name, props):
        self.name, self.props = name, props
        self.parts = []          # ("text", str) | ("struct", file, header) | ("block", ...)
    def text(self, t):
        self.parts.append(("text", t))
    def struct(self, file, header, attrs=""):
        self.parts.append(("struct", file, header, attrs))
    def block(self, file, header, fns, spec_items="", emit_header=None, drop_rest=True, only_free_fn=False):
        """trait / impl block: fns = {name: Fn}.  Methods not named are dropped (logged)."""
        self.parts.append(("block", file, header, fns, spec_items, emit_header, drop_rest))
    def free_fn(self, file, header, fn, wrap_mod=None):
        self.parts.append(("free_fn", file, header, fn, wrap_mod))
    def macro_block(self, file, macro_name, emit_header, fns, spec_items=""):
        """instantiate a no-argument macro whose body is a list of fns (deref_forward_buf!)"""
        self.parts.append(("macro_block", file, macro_name, emit_header, fns, spec_items))


_sf_cache = {}
def source(file):
    p = os.path.join(REPO, file)
    if p not in _sf_cache:
        _sf_cache[p] = SourceFile(p)
    return _sf_cache[p]


DROP_ATTRS = ("inline", "cold", "must_use", "cfg_attr", "doc", "allow", "track_caller")


def _filter_attrs(item, log):
    """return attribute text to keep; drops logged.  cfg(feature="std") resolved as enabled."""
    toks = item.attrs()
    out, i = [], 0
    while i < len(toks):
        t = toks[i]
        if t.kind == "doc":
            i += 1
            continue
        if t.text == "#":
            j = match_close(toks, i + 1)
            text = item.src[t.start:toks[j].end]
            name = toks[i + 2].text
            n = "".join(tokens_text(toks[i:j + 1]))
            if name in DROP_ATTRS:
                log.append("attr dropped: " + n)
            elif n == '#[cfg(feature="std")]':
                log.append("cfg(feature=\"std\") resolved as enabled")
            elif name == "derive":
                log.append("attr dropped: " + n)
            else:
                out.append(text)
            i = j + 1
            continue
        i += 1
    return out


class FnParts:
    """split a fn item into qualifiers / name+generics+params / return type / where / body"""
    def __init__(self, item):
        toks, src = item.toks, item.src
        k = item.h0
        while toks[k].text != "fn":
            k += 1
        self.qual_text = src[toks[item.h0].start:toks[k].start]
        self.quals = [t.text for t in toks[item.h0:k]]
        self.name = toks[k + 1].text
        j = k + 2
        if toks[j].text == "<":
            depth = 0
            while True:
                tx = toks[j].text
                if tx == "<":
                    depth += 1
                elif tx == ">":
                    depth -= 1
                elif tx == ">>":
                    depth -= 2
                elif tx in ("(", "["):
                    j = match_close(toks, j)
                j += 1
                if depth <= 0:
                    break
        assert toks[j].text == "(", (self.name, toks[j])
        pclose = match_close(toks, j)
        self.sig_head = src[toks[k].start:toks[pclose].end]       # fn name<..>(..)
        self.params_text = src[toks[j].start:toks[pclose].end]
        j = pclose + 1
        self.ret_text = None
        end = item.b0
        # where clause
        w = None
        jj = j
        while jj < end:
            if toks[jj].kind == "ident" and toks[jj].text == "where":
                w = jj
                break
            if toks[jj].text in ("(", "["):
                jj = match_close(toks, jj)
            jj += 1
        ret_end = w if w is not None else end
        if j < ret_end and toks[j].text == "->":
            self.ret_text = src[toks[j + 1].start:toks[ret_end - 1].end]
        self.where_text = src[toks[w].start:toks[end - 1].end] if w is not None else ""
        self.has_body = toks[item.b0].text == "{"
        self.body_text = src[toks[item.b0].start:toks[item.b1].end] if self.has_body else ";"
        self.item = item


def _find_loops(item):
    """indices (into item.toks) of loop keywords inside the body, in source order, with the
    index of the `{` opening each loop body"""
    toks = item.toks
    res = []
    i = item.b0 + 1
    while i < item.b1:
        t = toks[i]
        if t.kind == "ident" and t.text in ("while", "loop", "for"):
            if t.text == "for" and toks[i + 1].text == "<":     # for<'a> HRTB
                i += 1
                continue
            j = i + 1
            while True:
                tj = toks[j]
                if tj.text in ("(", "["):
                    j = match_close(toks, j) + 1
                    continue
                if tj.text == "{":
                    break
                j += 1
            res.append((i, j))
        i += 1
    return res


def _find_seq(toks, lo, hi, pat):
    """first index in [lo,hi) where the normalised token texts equal pat"""
    n = len(pat)
    texts = [t.text for t in toks[lo:hi]]
    # normalise >> splitting is not needed for statement anchors
    for s in range(0, len(texts) - n + 1):
        if texts[s:s + n] == pat:
            return lo + s
    return None


def emit_fn(item, fn, log, indent="    "):
    """Return emitted text for one function and perform the splices."""
    p = FnParts(item)
    src, toks = item.src, item.toks
    attrs = _filter_attrs(item, log)
    out = []
    for a in attrs:
        out.append(indent + a + "\n")
    quals = p.qual_text
    for q in fn.drop_quals:
        if re.search(r"\b%s\b" % q, quals):
            quals = re.sub(r"\b%s\b\s*" % q, "", quals)
            log.append("qualifier dropped: " + q)
    head = indent
    if fn.mode == "external_body":
        head += SP + "#[verifier::external_body] " + EP
    head += quals + p.sig_head
    if p.ret_text is not None:
        if fn.ret and p.ret_text.strip() != "!":
            head += " -> " + SP + "(" + fn.ret + ": " + EP + p.ret_text + SP + ")" + EP
        else:
            head += " -> " + p.ret_text
    if p.where_text:
        head += "\n" + indent + p.where_text
    out.append(head)
    if fn.spec.strip():
        out.append("\n" + SP + "\n" + _indent(fn.spec.strip(), indent + "    ") + "\n" + EP)
    if not p.has_body:
        out.append(";\n")
        return "".join(out), p
    if fn.mode == "external_body":
        log.append("body NOT verified here (external_body): contract imported, see note: " + fn.note)
        out.append("\n" + indent + "{ " + SP + "unimplemented!()" + EP + " }\n")
        return "".join(out), p
    # body with splices: collect (char position, text) insertions
    ins = []
    loops = _find_loops(item)
    for n, text in fn.loops.items():
        if n < 1 or n > len(loops):
            raise InfraError("lost anchor: loop %d of %s (has %d loops)" % (n, p.name, len(loops)))
        kw, brace = loops[n - 1]
        ins.append((toks[brace].start, "\n" + SP + "\n" + _indent(text.strip(), indent + "        ") + "\n" + EP + "\n" + indent + "    "))
    for h in fn.hints:
        kind, pat, text = h
        block = "\n" + SP + "\n" + _indent(text.strip(), indent + "    ") + "\n" + EP + "\n"
        if kind == "body_start":
            ins.append((toks[item.b0].end, block))
        elif kind == "body_end":
            ins.append((toks[item.b1].start, block))
        elif kind == "before_tail":
            # before the tail expression of the body = after the last top-level `;` (or `}` of a
            # block statement); independent of the tail's own text
            j = item.b0 + 1
            last = item.b0
            while j < item.b1:
                tx = toks[j].text
                if tx in ("(", "[", "{"):
                    j = match_close(toks, j)
                    if tx == "{" and j + 1 < item.b1 and toks[j + 1].text not in (".", "?", ";", ")", ","):
                        last = j
                elif tx == ";":
                    last = j
                j += 1
            ins.append((toks[last].end, block))
        elif kind in ("loop_start", "loop_end"):
            n = int(pat)
            if n < 1 or n > len(loops):
                raise InfraError("lost anchor: loop %d of %s" % (n, p.name))
            kw, brace = loops[n - 1]
            if kind == "loop_start":
                ins.append((toks[brace].end, block))
            else:
                ins.append((toks[match_close(toks, brace)].start, block))
        elif kind in ("after", "before"):
            patt = norm(pat)
            s = _find_seq(toks, item.b0 + 1, item.b1, patt)
            if s is None:
                raise InfraError("lost anchor: statement `%s` in %s" % (pat, p.name))
            if kind == "before":
                ins.append((toks[s].start, block))
            else:
                j = s
                depth = 0
                while j < item.b1:
                    tx = toks[j].text
                    if tx in ("(", "[", "{"):
                        j = match_close(toks, j)
                        if tx == "{" and j + 1 < item.b1 and toks[j + 1].text != ";" and _stmt_ends_with_block(toks, s, j):
                            break
                    elif tx == ";":
                        break
                    j += 1
                ins.append((toks[j].end, block))
        else:
            raise InfraError("bad hint kind " + kind)
    b_start = toks[item.b0].start
    body = p.body_text
    for pos, text in sorted(ins, key=lambda x: -x[0]):
        rel = pos - b_start
        body = body[:rel] + text + body[rel:]
    out.append("\n" + indent + body + "\n")
    return "".join(out), p


def _stmt_ends_with_block(toks, s, j):
    # `if … { }` / `match … { }` statements end at the closing brace (no semicolon)
    return toks[s].text in ("if", "match", "while", "for", "loop", "unsafe")


def _indent(text, ind):
    return "\n".join(ind + l if l.strip() else l for l in text.split("\n"))


def strip_spliced(text):
    """token texts of `text` with everything between the markers removed"""
    toks = lex(text, keep_comments=True)
    out, skip = [], 0
    for t in toks:
        if t.kind == "comment":
            if t.text == SP:
                skip += 1
            elif t.text == EP:
                skip -= 1
            continue
        if t.kind == "doc":
            continue
        if skip == 0:
            if t.text == ">>":
                out += [">", ">"]
            else:
                out.append(t.text)
    return out


def fidelity(item, emitted, fn, p):
    """emitted function minus spliced runs == source function (minus dropped attrs/quals)."""
    src_toks = tokens_text(item.toks[item.h0:item.b1 + 1])
    for q in fn.drop_quals:
        if q in src_toks[:src_toks.index("fn")]:
            k = src_toks.index(q)
            del src_toks[k]
    em = strip_spliced(emitted)
    # remove kept attributes from emitted (they were in the source attrs, not in h0..b1)
    while em and em[0] == "#":
        depth = 0
        k = 1
        while True:
            if em[k] == "[":
                depth += 1
            elif em[k] == "]":
                depth -= 1
                if depth == 0:
                    break
            k += 1
        del em[:k + 1]
    if fn.mode == "external_body" and p.has_body:
        # compare signatures only
        b = src_toks.index("{") if "{" in src_toks else len(src_toks)
        # the body brace is the last top-level `{`; recompute from item
        nsig = len(tokens_text(item.toks[item.h0:item.b0]))
        return em[:nsig] == src_toks[:nsig] and em[nsig:] == ["{", "}"]
    return em == src_toks


class Emitted:
    def __init__(self):
        self.text = []
        self.line = 1
        self.fns = []        # dict(path, file, src_line, start_line, end_line, sha, drops, mode)
        self.drops = []
    def add(self, t):
        self.text.append(t)
        self.line += t.count("\n")


def build_unit(unit, outdir):
    em = Emitted()
    em.add("// GENERATED by /verif/lib/vx.py from %s -- do not edit; exec text is copied from the source tree\n" % REPO)
    em.add("#![allow(unused_imports, unused_variables, dead_code, unused_mut, unused_parens, unused_braces, non_snake_case)]\n")
    em.add("#![feature(allocator_api)]\n")
    em.add("use vstd::prelude::*;\nuse vstd::std_specs::cmp::*;\nverus! {\n\n")
    for part in unit.parts:
        if part[0] == "text":
            em.add(part[1].rstrip() + "\n\n")
        elif part[0] == "struct":
            _, file, header, attrs = part
            sf = source(file)
            hits = sf.find(header)
            if len(hits) != 1:
                raise InfraError("lost anchor: %s in %s (%d hits)" % (header, file, len(hits)))
            it = hits[0]
            log = []
            _filter_attrs(it, log)
            body = "".join(l + "\n" for l in it.full_text.split("\n") if not l.strip().startswith("///"))
            em.drops.append({"item": header, "file": file, "drops": log})
            em.add((attrs + "\n" if attrs else "") + body + "\n")
        elif part[0] == "free_fn":
            _, file, header, fn, wrap_mod = part
            sf = source(file)
            hits = [it for it in sf.top_items() if it.kind == "fn" and fn_name(it) == header]
            if len(hits) != 1:
                raise InfraError("lost anchor: fn %s in %s (%d hits)" % (header, file, len(hits)))
            if wrap_mod:
                em.add("pub mod %s {\n    use super::*;\n" % wrap_mod)
                em.drops.append({"item": "fn " + header, "file": file, "drops": ["emitted inside `mod %s` (its module in the crate)" % wrap_mod]})
            _emit_one(em, unit, file, "", hits[0], fn, indent="    " if wrap_mod else "")
            if wrap_mod:
                em.add("}\n\n")
        elif part[0] == "block":
            _, file, header, fns, spec_items, emit_header, drop_rest = part
            sf = source(file)
            hits = sf.find(header)
            if len(hits) != 1:
                raise InfraError("lost anchor: `%s` in %s (%d hits)" % (header, file, len(hits)))
            it = hits[0]
            log = []
            hdr = emit_header or it.header_text
            if emit_header:
                log.append("block header emitted as `%s` (source: `%s`)" % (emit_header, " ".join(it.header_text.split())))
            _filter_attrs(it, log)
            em.add(hdr + " {\n")
            if spec_items.strip():
                em.add(_indent(spec_items.strip(), "    ") + "\n\n")
            kids = {fn_name(c): c for c in sf.children(it) if c.kind == "fn"}
            for name, fn in fns.items():
                if name not in kids:
                    raise InfraError("lost anchor: fn %s in `%s` (%s)" % (name, header, file))
                _emit_one(em, unit, file, header, kids[name], fn)
            dropped = [k for k in kids if k not in fns]
            if dropped:
                log.append("methods not extracted in this unit: " + ", ".join(dropped))
            _check_known_methods(file, header, kids)
            # associated types etc. inside the block
            inherent = emit_header is not None and " for " not in emit_header
            for c_text in _assoc_types(sf, it):
                if inherent:
                    log.append("associated type dropped (trait impl emitted as inherent impl): " + c_text)
                else:
                    em.add("    " + c_text + "\n")
            em.drops.append({"item": header, "file": file, "drops": log})
            em.add("}\n\n")
        elif part[0] == "macro_block":
            _, file, macro_name, emit_header, fns, spec_items = part
            sf = source(file)
            hits = [it for it in sf.top_items() if it.kind == "macro_rules" and it.header[2].text == macro_name]
            if len(hits) != 1:
                raise InfraError("lost anchor: macro %s in %s" % (macro_name, file))
            mac = hits[0]
            # macro_rules! name { () => { BODY }; }   -- locate BODY braces
            toks = sf.toks
            i = mac.b0 + 1
            if not (toks[i].text == "(" and toks[i + 1].text == ")" and toks[i + 2].text == "=>" and toks[i + 3].text == "{"):
                raise InfraError("macro %s is not a no-argument macro any more" % macro_name)
            b0 = i + 3
            b1 = match_close(toks, b0)
            from rustlex import items_in
            kids = {fn_name(c): c for c in items_in(sf.src, toks, b0 + 1, b1) if c.kind == "fn"}
            em.add(emit_header + " {\n")
            if spec_items.strip():
                em.add(_indent(spec_items.strip(), "    ") + "\n\n")
            log = ["macro %s!() instantiated by pasting its body at the invocation `%s`" % (macro_name, emit_header)]
            for name, fn in fns.items():
                if name not in kids:
                    raise InfraError("lost anchor: fn %s in macro %s" % (name, macro_name))
                _emit_one(em, unit, file, emit_header, kids[name], fn)
            dropped = [k for k in kids if k not in fns]
            if dropped:
                log.append("methods not extracted in this unit: " + ", ".join(dropped))
            _check_known_methods(file, "macro " + macro_name, kids)
            em.drops.append({"item": emit_header, "file": file, "drops": log})
            em.add("}\n\n")
    em.add("\n// vacuity canary: must be reported as failing on every run\nproof fn vx_canary()\n    ensures false\n{\n}\n")
    em.canary_line = em.line - 3
    em.add("\n} // verus!\nfn main() {}\n")
    os.makedirs(outdir, exist_ok=True)
    path = os.path.join(outdir, unit.name + ".rs")
    open(path, "w").write("".join(em.text))
    em.path = path
    return em


_KNOWN = None
def _check_known_methods(file, header, kids):
    """Every method of an extracted trait / impl block is either under contract in some unit or on
    the committed list of methods decided elsewhere (contracts/known_methods.json: Kani obligations,
    or outside every property).  A method that is on neither - e.g. a newly added override of a
    provided trait method (seed C09-9: `Iterator::nth` for IntoIter) - has no contract at all:
    undecided, never silently ignored.  The list is never written at run time."""
    global _KNOWN
    if _KNOWN is None:
        p = os.path.join(os.path.dirname(os.path.dirname(os.path.abspath(__file__))), "contracts", "known_methods.json")
        _KNOWN = json.load(open(p)) if os.path.exists(p) else {}
    key = "%s :: %s" % (file, " ".join(header.split()))
    if key not in _KNOWN:
        return
    new = [k for k in kids if k not in _KNOWN[key]]
    if new:
        raise InfraError("method(s) without any contract in `%s` (%s): %s - add a contract or list them in contracts/known_methods.json with the obligation that decides them" % (header, file, ", ".join(new)))


def _assoc_types(sf, it):
    toks = sf.toks
    res = []
    i = it.b0 + 1
    while i < it.b1:
        t = toks[i]
        if t.text == "{":
            i = match_close(toks, i) + 1
            continue
        if t.kind == "ident" and t.text == "type" and toks[i - 1].text in ("{", ";", "}", "]"):
            j = i
            while toks[j].text != ";":
                j += 1
            res.append(sf.src[t.start:toks[j].end])
            i = j
        i += 1
    return res


def _emit_one(em, unit, file, header, item, fn, indent="    "):
    log = []
    text, p = emit_fn(item, fn, log, indent)
    if not fidelity(item, text, fn, p):
        raise InfraError("fidelity mismatch for %s::%s" % (header, p.name))
    start = em.line
    em.add(text + "\n")
    body_sha = hashlib.sha256(item.full_text.encode()).hexdigest()[:16]
    em.fns.append({"path": (header + " :: " if header else "") + p.name, "name": p.name, "block": header,
                   "file": file, "src_line": item.line, "start_line": start, "end_line": em.line - 1,
                   "sha256_16": body_sha, "mode": fn.mode if p.has_body else "decl",
                   "drops": log, "note": fn.note, "props": fn.props})


# ----------------------------------------------------------------------------------------------

def run_verus(path, rlimit=None, timeout=900):
    cmd = ["verus", path, "--output-json", "--time", "--error-format=json", "--multiple-errors", "5"]
    if rlimit:
        cmd += ["--rlimit", str(rlimit)]
    t0 = time.time()
    try:
        pr = subprocess.run(cmd, capture_output=True, text=True, timeout=timeout, cwd=os.path.dirname(path))
    except subprocess.TimeoutExpired:
        raise InfraError("verus timeout on " + path)
    wall = time.time() - t0
    if "panicked at" in pr.stderr and "rustc" in pr.stderr:
        raise InfraError("verus crashed (internal error) on %s: %s" % (path, pr.stderr[:1500]))
    try:
        js = json.loads(pr.stdout[pr.stdout.index("{"):])
    except Exception:
        raise InfraError("verus produced no JSON for %s: %s" % (path, (pr.stderr or pr.stdout)[-2000:]))
    diags = []
    for line in pr.stderr.splitlines():
        line = line.strip()
        if line.startswith("{"):
            try:
                d = json.loads(line)
            except Exception:
                continue
            if d.get("level") == "error" and d.get("spans"):
                diags.append(d)
            elif d.get("level") == "error" and "aborting" not in d.get("message", ""):
                diags.append(d)
    return {"cmd": " ".join(cmd), "json": js, "diags": diags, "wall": wall, "stderr": pr.stderr, "rc": pr.returncode}


def check_unit(unit, outdir, rlimit=None):
    """Build + verify a unit.  Returns dict with functions, failures (list), canary_failed."""
    em = build_unit(unit, outdir)
    r = run_verus(em.path, rlimit)
    vr = r["json"].get("verification-results", {})
    if vr.get("encountered-vir-error") or ("verified" not in vr):
        msgs = "\n".join(d.get("rendered", d.get("message", "")) for d in r["diags"])[:4000]
        raise InfraError("verus rejected unit %s (not a verification failure):\n%s\n%s" % (unit.name, msgs, r["stderr"][-1500:] if not msgs else ""))
    failures, canary_failed, other = [], False, []
    base = os.path.basename(em.path)
    for d in r["diags"]:
        if d.get("code") is not None or not VERIF_FAIL_RE.search(d.get("message", "")):
            raise InfraError("verus/rustc rejected unit %s (not a verification failure): %s" % (
                unit.name, d.get("rendered", d.get("message", ""))[:3000]))
        spans = [s for s in d["spans"] if os.path.basename(s["file_name"]) == base]
        # the PRIMARY span is where the obligation arose (call site, end of body, loop); secondary
        # spans point at the clause that failed - for "precondition not satisfied" that is the
        # callee's `requires`, i.e. another function (attributing the failure there lost seed C12-6)
        spans.sort(key=lambda s: 0 if s.get("is_primary") else 1)
        lines = [s["line_start"] for s in spans]
        if any(abs(l - em.canary_line) <= 3 for l in lines):
            canary_failed = True
            continue
        hit = None
        for want_body in (True, False):
            for l in lines:
                for f in em.fns:
                    if f["start_line"] <= l <= f["end_line"] and (not want_body or f["mode"] == "verify"):
                        hit = f
                        break
                if hit:
                    break
            if hit:
                break
        rec = {"message": d["message"], "rendered": d.get("rendered", ""), "fn": hit, "lines": lines}
        if hit:
            failures.append(rec)
        else:
            other.append(rec)
    # per-function solver times
    times = {}
    try:
        for m in r["json"]["times-ms"]["smt"]["smt-run-module-times"]:
            for f in m["function-breakdown"]:
                times[f["function"]] = {"ms": f["time-micros"] / 1000.0, "rlimit": f["rlimit"], "success": f["success"]}
    except Exception:
        pass
    res = {"unit": unit.name, "path": em.path, "cmd": r["cmd"], "wall": r["wall"],
           "verified": vr.get("verified", 0), "errors": vr.get("errors", 0),
           "fns": em.fns, "drops": em.drops, "failures": failures, "other_errors": other,
           "canary_failed": canary_failed, "times": times,
           "verus_version": r["json"].get("verus", {}).get("version", "?"),
           "smt_ms": r["json"].get("times-ms", {}).get("smt", {}).get("total", None)}
    if other:
        # an error that is neither the canary nor inside an extracted function: prelude/lemma text is
        # wrong -> infrastructure problem, not a violation of the code
        raise InfraError("verus error outside extracted functions in unit %s:\n%s" % (
            unit.name, "\n".join(o["rendered"] for o in other)[:4000]))
    if not canary_failed:
        raise InfraError("canary verified in unit %s: vacuous context" % unit.name)
    # every function extracted for verification must have been looked at by Verus: it is either
    # among the verified ones or among the failures (a body that Verus skipped would count as neither)
    n_verify = sum(1 for f in em.fns if f["mode"] == "verify")
    n_failed = len({f["fn"]["path"] for f in failures})
    if res["verified"] + n_failed < n_verify:
        raise InfraError("unit %s: Verus reports %d verified + %d failed functions but %d were extracted for verification" % (
            unit.name, res["verified"], n_failed, n_verify))
    return res
