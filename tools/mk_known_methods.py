#!/usr/bin/env python3
"""(Re)generate contracts/known_methods.json: for every trait / impl block (and forwarding macro) that
some Verus unit extracts, the names of ALL its methods on the current tree.  Run by hand when a new
method has been given a contract or an obligation elsewhere; never at check time."""
import sys, os, json
HERE = os.path.dirname(os.path.dirname(os.path.abspath(__file__)))
sys.path.insert(0, os.path.join(HERE, "lib")); sys.path.insert(0, os.path.join(HERE, "contracts"))
import importlib.util, importlib.machinery
spec = importlib.util.spec_from_loader("check", importlib.machinery.SourceFileLoader("check", os.path.join(HERE, "check")))
chk = importlib.util.module_from_spec(spec); spec.loader.exec_module(chk)
import vx
from rustlex import fn_name, items_in, match_close
out = {}
for u in chk.load_units():
    for part in u.parts:
        if part[0] == "block":
            _, file, header = part[0], part[1], part[2]
            sf = vx.source(file); it = sf.find(header)[0]
            kids = [fn_name(c) for c in sf.children(it) if c.kind == "fn"]
            out.setdefault("%s :: %s" % (file, " ".join(header.split())), sorted(set(kids)))
        elif part[0] == "macro_block":
            _, file, macro_name = part[0], part[1], part[2]
            sf = vx.source(file)
            mac = [it for it in sf.top_items() if it.kind == "macro_rules" and it.header[2].text == macro_name][0]
            b0 = mac.b0 + 1 + 3; b1 = match_close(sf.toks, b0)
            kids = [fn_name(c) for c in items_in(sf.src, sf.toks, b0 + 1, b1) if c.kind == "fn"]
            out.setdefault("%s :: macro %s" % (file, macro_name), sorted(set(kids)))
json.dump(out, open(os.path.join(HERE, "contracts", "known_methods.json"), "w"), indent=1, sort_keys=True)
print(len(out), "blocks,", sum(len(v) for v in out.values()), "methods")
