import json, os
T = {}
def p(pid, technique, level_text, level_note, **kw):
    T[pid] = dict(technique=technique, level_text=level_text, level_note=level_note, **kw)

KANI = "Kani/CBMC pre/post contract harnesses on the real functions (symbolic pre-state from the representation invariant)"
p("C01", KANI + " + Verus ledger lemma over the contracts",
  "Per operation and representation: the value-model postcondition, wf of every resulting handle and the frame (witness index) are discharged by CBMC for all sizes/offsets/refcounts/arguments; the lifting to all histories is a Verus induction over the operation contracts. Proof for the functions listed in evidence.functions_under_contract; copying/reallocating paths are bounded stand-ins (allocation size fixed) and reported separately.",
  "CBMC memory model and object-size limit 2^40; pre-state builders complete by inspection; ledger reading of the contract table; std Vec/Box as compiled by Kani")
p("C02", KANI + " with CBMC's automatic memory-safety, dealloc-layout, double-free and overflow obligations; allocator ledger stub for the crate's direct dealloc calls (odd addresses)",
  "Every harness of C01/C03/C04/C13 carries the pointer-validity, bounds, dealloc size/validity, double-free and arithmetic-overflow checks CBMC generates; they are counted as obligations and must all be discharged, for unconstrained arguments.",
  "CBMC memory model; allocation <= 2^40 bytes; std internals as compiled by Kani; K8 stand-ins bounded")
p("C03", KANI + " on the refcount functions (+/-1, free iff last) with CBMC memory-leak check and dealloc ledger + Verus ledger lemma (freed exactly once after the last handle)",
  "Contracts on every increment/decrement/consume function; leak check and ledger show the buffer and control block are released exactly when the count reaches zero; induction over histories in Verus.",
  "unwinding not modelled (as_ref-panics clause assumed); sequential atomics; ledger reading of contracts")
p("C04", KANI + " on split/advance/unsplit/reserve/try_reclaim region arithmetic + Verus exclusivity lemma",
  "Region postconditions (disjoint halves, union = old region, in bounds of the allocation) and the reserve/try_reclaim promise for all offsets/lengths/arguments incl. near usize::MAX; allocating branches are bounded stand-ins.",
  "as C01; Vec::reserve growth as compiled by Kani with allocation size fixed (bounded)")
p("C05", "", "", "", not_applicable=True, na_reason="quantifies over thread interleavings: Kani sequentialises atomics and has no threads; Verus would need a rewrite against its permission-carrying atomics (a model, not the code). Sequential contracts of the same functions are under C03.")
p("C06", "", "", "", not_applicable=True, na_reason="quantifies over C11 weak-memory executions: no installed deductive verifier has a weak-memory semantics for Rust atomics; an Ordering lint would not be a proof.")
p("C07", KANI + ": address equality and kani::mem::same_allocation postconditions",
  "Each sharing operation's result starts at source address + logical offset and lies in the same allocation (so it is not a copy), for every index/range, on every representation; empty split results keep the address.",
  "`without_provenance(a) as usize == a` assumed (CBMC cannot encode null.wrapping_add of an address with object bits); a transient allocate-and-drop inside an operation would not be seen")
p("C08", KANI + " on is_unique/try_into_mut/try_reclaim + Verus lemma (count == 1 iff no other handle)",
  "is_unique equals the tabled function of representation and count for all states; try_into_mut Ok iff unique with same memory; sole empty owner reclaims for every n up to the allocation size.",
  "as C01")
p("C09", "Verus on mechanically extracted, verbatim Buf implementors against a trait-level cursor contract (generic in the type parameters => every nesting depth) + Kani for pointer-level implementors, chunks_vectored and copy_to_bytes",
  "remaining/chunk/advance/try_copy_to_slice/... of &[u8], Take, Chain, &mut T, Box<T>, Cursor, IntoIter verified for all inputs and all chunkings against seq-based contracts; Bytes/BytesMut as Buf, chunks_vectored (default, Chain, Take, forwarders) by Kani over the full domain of the stated shapes; VecDeque, copy_to_bytes of Take/Chain bounded.",
  "assumed std contracts (cmp::min, slice ops per vstd, Cursor accessors); VecDeque bounded in capacity; 'advance beyond remaining panics' checked by Kani per implementor")
p("C10", "Kani full-domain loop-free harnesses of every macro-generated get_X/try_get_X against an abstract law-abiding Buf whose copy_to_slice is its (Verus-proved) contract; oracle from_{be,le,ne}_bytes with independent sign fill",
  "All getters, all values, nbytes 0..=8 and >8, all shortfalls, fast and slow path chosen by the solver; try_copy_to_slice loop proved in Verus for all chunkings; forwarders in Verus.",
  "little-endian target; abstract implementor stands for every law-abiding Buf")
p("C11", "Kani full-domain harnesses of put_X against an abstract BufMut + the real fixed targets; Verus for the default put_slice/put loops (bookkeeping, all chunkings), Limit, Chain, Writer and the forwarders",
  "Typed puts (all values, nbytes 0..=8, does-not-fit panics, round trip with get_X) and the &mut [u8] / MaybeUninit / UninitSlice targets proved loop-free over the full domain; default put_slice/put loops proved in Verus to terminate and account exactly for every chunking; contents of the default loops, Vec<u8> and BytesMut targets are bounded stand-ins.", "contents through nested adapters only via the bookkeeping contract; bounded parts named in evidence.bounds")
p("C12", "Verus on extracted Take/Chain/Limit/Reader/Writer with accounting postconditions (limit' == limit - n, inner advanced by n, a before b), generic in the inner type",
  "Holds for arbitrarily nested adapters by structural induction on the type: each adapter is verified against the trait contract of its parameter.", "assumed std contracts as C09")
p("C13", "Kani panic-path harnesses: negated argument contract => exactly the documented panic fails, every memory-safety/overflow check passes, no write before the panic (proof_for_contract with empty modifies where usable)",
  "For each guarded method, out-of-contract arguments reach only the documented assertion; nothing is written before it.", "unwinding itself not modelled")
p("C14", "Verus on every extracted PartialEq/PartialOrd/Ord impl: result == that function of the two byte views in this operand order (vstd PartialEqSpecImpl/PartialOrdSpecImpl/OrdSpecImpl)",
  "58 impl functions (54 comparisons + Hash and Borrow<[u8]> of both types) verified for all inputs, unbounded; operand swaps and wrong-view bugs fail a named postcondition. The two `*self == other[..]` impls on String are outside Verus (no Index<RangeFull> spec for String) and are covered, like changes that reach into the fields of the opaque types, by a bounded Kani twin on the real types (views <= 3 bytes).",
  "slice ==/partial_cmp/cmp/hash assumed to be eq / lex_cmp / one uninterpreted function of the element sequences; str bytes per vstd spec_bytes; String bytes uninterpreted")
p("C15", "Kani on the real fmt code for all single bytes / byte pairs with an independent literal decoder + Verus composition lemma; serde visitors and Serialize by Kani (--features serde)",
  "Debug / {:x} / {:X}: proof for all 256 bytes and all 65536 pairs on the real code (output is exactly b\"esc(b0)esc(b1)\" and parses back), lemma decode(render(s)) == s for every length. serde: every visitor entry point returns equal contents and serialize hands exactly the contents to serialize_bytes, for inputs of 0..=4 bytes (bounded, reported separately).", "loop carries no state between bytes (read off the source; the pair obligation checks adjacent pairs); serde part bounded")
p("C16", "same contracts discharged per configuration (even/odd address via ledger harnesses; overflow/shift/debug_assert obligations make debug and release agree; feature sets re-run in thorough tier)",
  "every configuration satisfies the same deterministic contract", "capacities pinned only from below where left to Vec")
p("C17", "Kani harnesses driving each unsafe-containing consumer with unconstrained (lying) trait implementors: only memory-safety-class checks must pass",
  "panics allowed, memory safety proved for bounded lie schedules; inductive step from the wf-preservation contracts", "loops unwound a fixed number of times (bounded, stated)")
p("C18", "Verus lemma over the reserve/split/advance/drop contracts (induction over rounds)",
  "restricted claim: window 0, allocations bounded, capacity bounded by max(C0,4M)", "assumed Vec::reserve growth bound; retention windows k>0 not covered")
json.dump(T, open(os.path.join(os.path.dirname(__file__), "manifest_texts.json"), "w"), indent=1)
