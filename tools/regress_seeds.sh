#!/bin/bash
# usage: regress_seeds.sh [id-prefix...]   Re-evaluates stored seeded changes quickly: for every
# seeded/<id>/meta.json with a "fast_only" field, runs the property's check restricted to the
# obligations that are known to report it (Verus units always run) against a patched scratch
# worktree, and compares with "expected".  A regression harness for the machinery, not a check.
cd $(dirname $0)/..
for d in seeded/C*-*; do
  id=$(basename $d)
  if [ $# -gt 0 ]; then ok=0; for a in "$@"; do case $id in $a*) ok=1;; esac; done; [ $ok = 1 ] || continue; fi
  fo=$(python3 -c "import json;m=json.load(open('$d/meta.json'));print(m.get('fast_only') or '')")
  [ -n "$fo" ] || continue
  out=$(tools/eval_seed.sh $id ${id%%-*} --only $fo 2>&1 | head -1)
  case "$out" in *"rc=1"*) echo "ok   $id ($fo)";; *) echo "MISS $id ($fo): $out";; esac
done
