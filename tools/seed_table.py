#!/usr/bin/env python3
"""prints, for every seed under seeded/, the obligations of the most recent evaluation logs (logs/seed-<id>-<prop>.out)"""
import glob, os, re, json, sys
here = os.path.dirname(os.path.dirname(os.path.abspath(__file__)))
ids = sorted(os.path.basename(d) for d in glob.glob(os.path.join(here, "seeded", "C*-*")))
for i in ids:
    if len(sys.argv) > 1 and not any(i.startswith(a) or i == a for a in sys.argv[1:]):
        continue
    obs, und = [], 0
    for f in sorted(glob.glob(os.path.join(here, "logs", "seed-%s-C*.out" % i)), key=os.path.getmtime):
        t = open(f).read()
        o = re.findall(r"^  obligation (?:kx|vx|lemma):([^\n]*?)(?::| ::) ?([A-Za-z_0-9]*)", t, re.M)
        names = []
        for m in re.finditer(r"^  obligation (kx|vx):([^\n]*)", t, re.M):
            s = m.group(2)
            if m.group(1) == "kx":
                names.append(s.split(":")[0])
            else:
                names.append("V " + s.split(": ")[0][:90])
        obs.append((os.path.basename(f), sorted(set(names))[:4], t.count("\nUNDECIDED") + t.startswith("UNDECIDED")))
    print(i, "|", "; ".join("%s -> %s%s" % (f.replace("seed-%s-" % i, "").replace(".out", ""), ", ".join(n) or "NOT CAUGHT", " (+%d undecided)" % u if u else "") for f, n, u in obs))
