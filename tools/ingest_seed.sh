#!/bin/bash
# usage: ingest_seed.sh <prop> <srcdir with patch.diff demo.rs meta.json> -> copies to seeded/<prop>-<next>, confirms it
prop=$1; src=$2
here=$(cd $(dirname $0)/.. && pwd)
n=1; while [ -e $here/seeded/$prop-$n ]; do n=$((n+1)); done
id=$prop-$n
mkdir -p $here/seeded/$id
cp $src/patch.diff $src/demo.rs $src/meta.json $here/seeded/$id/
res=$($here/tools/confirm_seed.sh $here/seeded/$id 2>&1 | tail -2)
echo "$id: $res"
case "$res" in *CONFIRMED*) ;; *) mv $here/seeded/$id /tmp/rejected-$id-$$ ;; esac
