#!/bin/bash
# usage: eval_seed.sh <seed-id> <prop> [check args...]   e.g. eval_seed.sh C07-1 C07 --only try_into_mut
# Runs ./check against a scratch worktree of /repo with the seeded patch applied (VERIF_REPO), so
# that /repo itself is untouched and several seeds can be evaluated in parallel.
id=$1; prop=$2; shift 2
here=$(cd $(dirname $0)/.. && pwd)
w=/tmp/sw-$id; rm -rf $w; git -C /repo worktree prune
git -C /repo worktree add -q --detach $w HEAD || exit 2
( cd $w && git apply $here/seeded/$id/patch.diff ) || { echo "patch does not apply"; exit 2; }
cd $here
VERIF_REPO=$w VERIF_NOEVIDENCE=1 VERIF_LOGTAG=seed-$id- ./check $prop "$@" > logs/seed-$id-$prop.out 2>&1
rc=$?
git -C /repo worktree remove --force $w
echo "seed $id prop $prop rc=$rc: $(grep -c '^VIOLATION' logs/seed-$id-$prop.out) violation line(s), $(grep -c '^UNDECIDED' logs/seed-$id-$prop.out) undecided"
grep -E "^VIOLATION|^  obligation" logs/seed-$id-$prop.out | cut -c1-260 | head -6
