#!/bin/bash
# usage: r5in.sh <prop> <a|b>...  : ingest round-5 deliveries of a property, queue their evaluation
p=$1; shift
for x in "$@"; do
  out=$(/verif/tools/ingest_seed.sh $p /tmp/r6_$p/out/$x); echo "$out"
  id=$(echo "$out" | head -1 | cut -d: -f1)
  case "$out" in *CONFIRMED*) true;; esac
done
git -C /repo worktree remove --force /tmp/r6_$p
