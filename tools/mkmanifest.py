#!/usr/bin/env python3
"""Regenerate MANIFEST.json from the obligation tables (contracts/*.py, lemmas/*.rs, kani/*.rs @ob lines)
and the per-property texts below.  A property is claimed only if at least one obligation serves it."""
import json, os, sys, subprocess
HERE = os.path.dirname(os.path.dirname(os.path.abspath(__file__)))
sys.path.insert(0, os.path.join(HERE, "lib")); sys.path.insert(0, os.path.join(HERE, "contracts"))
import importlib.util, importlib.machinery
spec = importlib.util.spec_from_loader("check", importlib.machinery.SourceFileLoader("check", os.path.join(HERE, "check")))
chk = importlib.util.module_from_spec(spec); spec.loader.exec_module(chk)
import kx

TEXT = json.load(open(os.path.join(HERE, "tools", "manifest_texts.json")))
units, lemmas, hs = chk.load_units(), chk.load_lemmas(), kx.load_harnesses()
served = {}
for u in units:
    for p in u.props: served.setdefault(p, set()).add("vx")
for l in lemmas:
    for p in l["props"]: served.setdefault(p, set()).add("lemma")
for h in hs:
    for p in h.props: served.setdefault(p, set()).add("kx")
checks, na = [], []
for i in range(1, 19):
    pid = "C%02d" % i
    t = TEXT[pid]
    if pid in served and not t.get("not_applicable"):
        checks.append({
            "property_id": pid,
            "quick_cmd": "./check %s --tier quick" % pid,
            "thorough_cmd": "./check %s --tier thorough" % pid,
            "evidence_file": "/verif/evidence/%s.json" % pid,
            "replay_cmd_template": "./check %s --replay {path}" % pid,
            "engine": "+".join(sorted(served[pid])),
            "level_claimed": {"category": "proof", "text": t["level_text"], "design_ref": t.get("design_ref", "DESIGN.md §3 " + pid)},
            "level_note": t["level_note"],
            "technique": t["technique"],
        })
    else:
        na.append({"property_id": pid, "reason": t.get("na_reason") or "no obligation built yet for this property (work in progress); see DESIGN.md §3"})
m = {
    "version": 1,
    "setup_cmd": "./check --selftest",
    "hooks": {"guard": "kani", "enable": "none needed: harnesses are child modules appended to a scratch copy of /repo (cfg(kani) is set by cargo-kani only); /repo carries no hooks",
              "baseline_off_cmd": "cd /repo && cargo test --workspace --no-fail-fast --offline", "source_commits": [], "add_only": True},
    "engines": [
        {"name": "vx", "path": "lib/vx.py + contracts/", "serves_properties": sorted(p for p in served if "vx" in served[p]),
         "kind_free_text": "mechanical extraction of real function text into a single Verus file, contracts spliced, fidelity-checked; Verus/Z3"},
        {"name": "kx", "path": "lib/kx.py + kani/", "serves_properties": sorted(p for p in served if "kx" in served[p]),
         "kind_free_text": "Kani/CBMC pre/post harnesses on the real crate (child-module overlay of a scratch copy): one crate function per obligation, symbolic pre-state from the representation invariant"},
        {"name": "lemmas", "path": "lemmas/", "serves_properties": sorted(p for p in served if "lemma" in served[p]),
         "kind_free_text": "Verus lemmas over the per-function contracts (induction over arbitrary operation sequences)"},
    ],
    "checks": checks,
    "not_applicable": na,
    "notes": "contract-based deductive verification only (Verus + Kani); see DESIGN.md. exit 2 = undecided (tool limit), never reported as a violation.",
}
json.dump(m, open(os.path.join(HERE, "MANIFEST.json"), "w"), indent=1)
print("claimed:", [c["property_id"] for c in checks]); print("n/a:", [n["property_id"] for n in na])
