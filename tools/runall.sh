#!/bin/bash
# runs every claimed property's quick (or $1) check sequentially and prints one line each
tier=${1:-quick}
cd $(dirname $0)/..
python3 tools/mkmanifest.py > /dev/null
for p in $(python3 -c "import json;print(' '.join(c['property_id'] for c in json.load(open('MANIFEST.json'))['checks']))"); do
  s=$(date +%s)
  out=$(./check $p --tier $tier 2>&1 | grep -v conda)
  rc=$?
  echo "$(echo "$out" | tail -1)  [rc=$(echo "$out" | grep -c '^VIOLATION') viol, $(echo "$out" | grep -c '^UNDECIDED') undecided, $(( $(date +%s) - s ))s]"
  echo "$out" | grep -E "^VIOLATION|^UNDECIDED|^KNOWN" | cut -c1-300
done
python3-vt - <<'P'
import json,jsonschema,glob
sch=json.load(open('/root/.vp/EVIDENCE.schema.json'))
for f in sorted(glob.glob('evidence/*.json')):
    try:
        e=json.load(open(f)); jsonschema.validate(e,sch)
        ok = e['coverage']['obligations']==e['coverage']['discharged'] and e['coverage']['obligations']>0
        print(f,'valid', 'obl=%d dis=%d bounded=%d/%d'%(e['coverage']['obligations'],e['coverage']['discharged'],e['coverage']['bounded_discharged'],e['coverage']['bounded_obligations']), '' if ok else 'NOT-EQUAL/ZERO')
    except Exception as ex: print(f,'INVALID',str(ex)[:200])
P
