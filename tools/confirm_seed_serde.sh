#!/bin/bash
d=$(readlink -f "$1"); w=$(mktemp -d /tmp/confirm-XXXX); rmdir $w
git -C /repo worktree add -q --detach $w HEAD || exit 2
cd $w; res=REJECTED
if git apply "$d/patch.diff"; then
  nfail=$(cargo test --offline --features serde 2>&1 | grep -E "^test result" | grep -vc "ok\. .* 0 failed")
  cp "$d/demo.rs" tests/seeded_demo.rs
  cargo test --offline --features serde --test seeded_demo > /dev/null 2>&1; with=$?
  git checkout -q -- src
  cargo test --offline --features serde --test seeded_demo > /dev/null 2>&1; without=$?
  echo "suite_not_ok=$nfail demo_with=$with demo_without=$without"
  if [ "$nfail" = "0" ] && [ "$with" != "0" ] && [ "$without" = "0" ]; then res=CONFIRMED; fi
fi
cd /; git -C /repo worktree remove --force $w; echo "$res $d"
