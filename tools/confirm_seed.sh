#!/bin/bash
# usage: confirm_seed.sh <dir with patch.diff demo.rs meta.json> -> prints CONFIRMED / REJECTED
# Confirms in a fresh scratch worktree of /repo: compiles, existing suite passes with the change,
# demo fails with it and passes without.  Removes the worktree afterwards.
d=$(readlink -f "$1"); w=$(mktemp -d /tmp/confirm-XXXX); rmdir $w
git -C /repo worktree add -q --detach $w HEAD || exit 2
cd $w
res=REJECTED
if git apply "$d/patch.diff"; then
  suite=$(cargo test --offline 2>&1 | grep -E "^test result" )
  nfail=$(echo "$suite" | grep -vc "ok\. .* 0 failed")
  cp "$d/demo.rs" tests/seeded_demo.rs
  cargo test --offline --test seeded_demo > /tmp/confirm-with.log 2>&1; with=$?
  git checkout -q -- src
  cargo test --offline --test seeded_demo > /tmp/confirm-without.log 2>&1; without=$?
  echo "suite_lines=$(echo "$suite" | wc -l) suite_not_ok=$nfail demo_with_patch_rc=$with demo_without_rc=$without"
  if [ "$nfail" = "0" ] && [ "$with" != "0" ] && [ "$without" = "0" ]; then res=CONFIRMED; fi
fi
cd /; git -C /repo worktree remove --force $w
echo "$res $d"
