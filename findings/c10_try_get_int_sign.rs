// Demonstration for the C10 findings (run as an integration test of the real crate).
//  (a) try_get_int{,_le,_ne} built an i64 from the zero-padded bytes and never sign-extended.
//  (b) get_int*(0) shifted by 64 in sign_extend: panics with overflow checks, wraps without.
use bytes::Buf;

#[test]
fn try_get_int_sign_extends_like_get_int() {
    assert_eq!((&[0xffu8][..]).get_int(1), -1);
    assert_eq!((&[0xffu8][..]).try_get_int(1), Ok(-1));
    assert_eq!((&[0x80u8, 0x00][..]).try_get_int(2), Ok(-32768));
    assert_eq!((&[0x00u8, 0x80][..]).try_get_int_le(2), Ok(-32768));
    assert_eq!((&[0x00u8, 0x80][..]).try_get_int_ne(2), Ok((&[0x00u8, 0x80][..]).get_int_ne(2)));
}

#[test]
fn get_int_of_zero_bytes_is_zero() {
    assert_eq!((&[1u8, 2][..]).get_int(0), 0);
    assert_eq!((&[1u8, 2][..]).get_int_le(0), 0);
    assert_eq!((&[1u8, 2][..]).get_int_ne(0), 0);
    assert_eq!((&[1u8, 2][..]).try_get_int(0), Ok(0));
}
