// Demonstration for the C14 finding: `impl PartialOrd<BytesMut> for Vec<u8>` and `for &str`
// compared in the reverse operand order (other.partial_cmp(self)).
// Run as an integration test of the real crate:  cp to /repo-copy/tests/ && cargo test --test c14_partial_ord_reversed
use bytes::BytesMut;
use std::cmp::Ordering;

#[test]
fn vec_vs_bytes_mut_operand_order() {
    let a: Vec<u8> = vec![1];
    let b = BytesMut::from(&[2u8][..]);
    assert_eq!(a.partial_cmp(&b), Some(Ordering::Less));
    assert!(a < b);
    assert_eq!(b.partial_cmp(&a), Some(Ordering::Greater));
}

#[test]
fn str_ref_vs_bytes_mut_operand_order() {
    let a: &str = "a";
    let b = BytesMut::from(&b"b"[..]);
    assert_eq!(a.partial_cmp(&b), Some(Ordering::Less));
    assert!(a < b);
}
