// Demonstration for the C04/C02/C13/C16 finding: `v_capacity >= new_cap + offset` in
// BytesMut::reserve_inner (unique shared buffer with a front offset) overflows for huge requests.
// debug: try_reclaim / reserve panic with "attempt to add with overflow" (try_reclaim must never panic)
// release: the sum wraps, the test succeeds and the handle's capacity becomes ~usize::MAX.
use bytes::BytesMut;

#[test]
fn try_reclaim_huge_request_on_unique_shared_buffer_with_offset() {
    let mut a = BytesMut::zeroed(64);
    drop(a.split_to(16)); // shared form, sole owner, front offset 16, len 48
    let n = usize::MAX - a.len() - 16 + 1; // len + n fits in usize, len + n + offset does not
    let before = (a.as_ptr(), a.len(), a.capacity());
    let r = a.try_reclaim(n);
    assert!(!r, "try_reclaim({}) returned true; capacity is now {}", n, a.capacity());
    assert_eq!(before, (a.as_ptr(), a.len(), a.capacity()));
}
