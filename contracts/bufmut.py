"""Unit bufmut (C11, C12): trait BufMut bookkeeping contract, the generic adapters Limit<T> and
Chain<T,U> (as BufMut), Writer<B>, and the `&mut T` / `Box<T>` forwarders of
`deref_forward_bufmut!`, verified verbatim and generically (any nesting depth).

Bookkeeping contract: rem() is the number of bytes the target still accepts (unbounded nat;
remaining_mut() reports min(rem, usize::MAX), which is what Chain's saturating_add computes);
chunk_mut() is never longer than rem and empty only when rem is 0; advance_mut(n) lowers rem by
exactly n.  The *contents* half of C11 (which bytes land where) is the Kani side (p_putters.rs,
p_targets.rs): the typed puts and put_slice are imported contracts here."""
import re
from vx import Unit, Fn, source
from rustlex import items_in, fn_name, match_close

U = Unit("bufmut", props=["C11", "C12"])
U.assumptions = [
    "UninitSlice is opaque in unit bufmut: len() and IndexMut<RangeTo<usize>> (sub-slice of length `end`, requires end <= len) are assumed contracts; proved on the Kani side (kx_uninit_slice_*)",
    "imported contracts in unit bufmut: BufMut::put_slice/put_X bookkeeping (rem decreases by the encoded length) - contents proved by kx_put_* / kx_default_put_*",
]

U.text(r'''
use core::cmp;
use alloc::boxed::Box;
extern crate alloc;

pub assume_specification<T: core::cmp::Ord> [core::cmp::min] (a: T, b: T) -> (r: T)
    ensures T::obeys_cmp_spec() ==> r == (if a.cmp_spec(&b) == core::cmp::Ordering::Greater { b } else { a });

#[verifier::external_body]
pub struct UninitSlice { x: [u8] }

impl UninitSlice {
    pub uninterp spec fn spec_len(&self) -> nat;
    #[verifier::external_body]
    pub fn len(&self) -> (r: usize) ensures r == self.spec_len() { unimplemented!() }
}
impl vstd::std_specs::core::IndexSpecImpl<core::ops::RangeTo<usize>> for UninitSlice {
    open spec fn index_req(&self, index: &core::ops::RangeTo<usize>) -> bool { index.end <= self.spec_len() }
}
impl core::ops::Index<core::ops::RangeTo<usize>> for UninitSlice {
    type Output = UninitSlice;
    #[verifier::external_body]
    fn index(&self, index: core::ops::RangeTo<usize>) -> (r: &UninitSlice)
        ensures index.end <= self.spec_len() ==> r.spec_len() == index.end
    { unimplemented!() }
}
impl core::ops::IndexMut<core::ops::RangeTo<usize>> for UninitSlice {
    #[verifier::external_body]
    fn index_mut(&mut self, index: core::ops::RangeTo<usize>) -> (r: &mut UninitSlice)
        ensures index.end <= old(self).spec_len() ==> r.spec_len() == index.end
    { unimplemented!() }
}

pub open spec fn min_nat(a: nat, b: nat) -> nat { if a < b { a } else { b } }
pub open spec fn sat(a: nat) -> nat { if a > usize::MAX as nat { usize::MAX as nat } else { a } }
''')

SIZES = {"u8": 1, "i8": 1, "u16": 2, "i16": 2, "u32": 4, "i32": 4, "u64": 8, "i64": 8}


def macro_fns():
    sf = source("src/buf/buf_mut.rs")
    mac = [it for it in sf.top_items() if it.kind == "macro_rules" and it.header[2].text == "deref_forward_bufmut"][0]
    b0 = mac.b0 + 4
    b1 = match_close(sf.toks, b0)
    return [fn_name(c) for c in items_in(sf.src, sf.toks, b0 + 1, b1) if c.kind == "fn"]


NAMES = macro_fns()

TRAIT_SPEC = r'''
// bytes the target still accepts (may exceed usize::MAX for growable / chained targets)
spec fn rem(&self) -> nat;
// uninterpreted effect relations: a forwarder must have THE SAME effect as the inner method
spec fn put_eff(pre: &Self, post: &Self, op: int, v: int) -> bool;
spec fn put_slice_eff(pre: &Self, post: &Self, src: Seq<u8>) -> bool;
'''

trait_fns = {
    "remaining_mut": Fn(ret="r", spec="ensures r as nat == sat(self.rem()),"),
    "advance_mut": Fn(spec="requires cnt <= (*old(self)).rem(),\nensures (*final(self)).rem() == (*old(self)).rem() - cnt,"),
    "has_remaining_mut": Fn(ret="r", spec="ensures r == (self.rem() > 0),"),
    "chunk_mut": Fn(ret="r", spec="ensures r.spec_len() <= (*old(self)).rem(), (r.spec_len() == 0 <==> (*old(self)).rem() == 0),"),
    "put_slice": Fn(spec="""requires (*old(self)).rem() >= src@.len(),
ensures (*final(self)).rem() == (*old(self)).rem() - src@.len(), Self::put_slice_eff(old(self), final(self), src@),""",
                    mode="external_body", note="default loop: Kani kx_default_put_slice_loop; specialised impls: kx_*_put_slice"),
}
fwd_fns = {"remaining_mut": Fn(ret="r"), "advance_mut": Fn(), "chunk_mut": Fn(ret="r"), "put_slice": Fn()}
op = 0
for n in NAMES:
    if n in trait_fns:
        continue
    m = re.match(r"^put_(u8|i8|u16|i16|u32|i32|u64|i64)(_le|_ne)?$", n)
    if not m:
        raise Exception("bufmut: no contract table entry for forwarded method `%s`" % n)
    op += 1
    size = SIZES[m.group(1)]
    trait_fns[n] = Fn(spec="""requires (*old(self)).rem() >= %d,
ensures (*final(self)).rem() == (*old(self)).rem() - %d, Self::put_eff(old(self), final(self), %d, n as int),""" % (size, size, op),
                      mode="external_body", note="Kani kx_%s" % n)
    fwd_fns[n] = Fn()
trait_fns["limit"] = Fn(ret="r", spec="ensures r.spec_limit() == limit, r.spec_inner() == self,")
trait_fns["writer"] = Fn(ret="r", spec="ensures r.spec_buf() == self,")
# `chain_mut<U: BufMut>` (a bound on the trait itself inside the trait) crashes this Verus version
# (vir/src/traits.rs:487 assertion) - not extracted; its body is `Chain::new(self, next)`, and
# Chain::new is under contract below.

U.struct("src/buf/limit.rs", "struct Limit<T>")
U.struct("src/buf/chain.rs", "struct Chain<T, U>")
U.block("src/buf/buf_mut.rs", "trait BufMut", spec_items=TRAIT_SPEC, fns=trait_fns,
        emit_header="pub unsafe trait BufMut")

U.block("src/buf/limit.rs", "impl<T> Limit<T>", spec_items=r'''
pub closed spec fn spec_limit(&self) -> usize { self.limit }
pub closed spec fn spec_inner(&self) -> T { self.inner }
''', fns={
    "into_inner": Fn(ret="r", spec="ensures r == self.spec_inner(),"),
    "get_ref": Fn(ret="r", spec="ensures *r == self.spec_inner(),"),
    "get_mut": Fn(ret="r", spec="ensures *r == (*old(self)).spec_inner(), (*final(self)).spec_inner() == *final(r), (*final(self)).spec_limit() == (*old(self)).spec_limit(),"),
    "limit": Fn(ret="r", spec="ensures r == self.spec_limit(),"),
    "set_limit": Fn(spec="ensures (*final(self)).spec_limit() == lim, (*final(self)).spec_inner() == (*old(self)).spec_inner(),"),
})
U.free_fn("src/buf/limit.rs", "new", Fn(ret="r", spec="ensures r.spec_limit() == limit, r.spec_inner() == inner,"), wrap_mod="limit")

U.block("src/buf/limit.rs", "impl<T: BufMut> BufMut for Limit<T>", spec_items=r'''
// accepts at most `limit` more bytes
closed spec fn rem(&self) -> nat { min_nat(self.inner.rem(), self.limit as nat) }
closed spec fn put_eff(pre: &Self, post: &Self, op: int, v: int) -> bool { true }
closed spec fn put_slice_eff(pre: &Self, post: &Self, src: Seq<u8>) -> bool { true }
''', fns={
    "remaining_mut": Fn(ret="r"),
    "chunk_mut": Fn(ret="r"),
    "advance_mut": Fn(spec="""ensures
    (*final(self)).spec_limit() == (*old(self)).spec_limit() - cnt,
    (*final(self)).spec_inner().rem() == (*old(self)).spec_inner().rem() - cnt,"""),
}, emit_header="unsafe impl<T: BufMut> BufMut for Limit<T>")

U.block("src/buf/chain.rs", "impl<T, U> Chain<T, U>", spec_items=r'''
pub closed spec fn spec_a(&self) -> T { self.a }
pub closed spec fn spec_b(&self) -> U { self.b }
''', fns={
    "new": Fn(ret="r", spec="ensures r.spec_a() == a, r.spec_b() == b,"),
    "first_ref": Fn(ret="r", spec="ensures *r == self.spec_a(),"),
    "last_ref": Fn(ret="r", spec="ensures *r == self.spec_b(),"),
    "first_mut": Fn(ret="r", spec="ensures *r == (*old(self)).spec_a(), (*final(self)).spec_a() == *final(r), (*final(self)).spec_b() == (*old(self)).spec_b(),"),
    "last_mut": Fn(ret="r", spec="ensures *r == (*old(self)).spec_b(), (*final(self)).spec_b() == *final(r), (*final(self)).spec_a() == (*old(self)).spec_a(),"),
    "into_inner": Fn(ret="r", spec="ensures r.0 == self.spec_a(), r.1 == self.spec_b(),"),
})
U.block("src/buf/chain.rs", "impl<T, U> BufMut for Chain<T, U> where T: BufMut, U: BufMut,", spec_items=r'''
// all of a's room, then all of b's
closed spec fn rem(&self) -> nat { self.a.rem() + self.b.rem() }
closed spec fn put_eff(pre: &Self, post: &Self, op: int, v: int) -> bool { true }
closed spec fn put_slice_eff(pre: &Self, post: &Self, src: Seq<u8>) -> bool { true }
''', fns={
    "remaining_mut": Fn(ret="r"),
    "chunk_mut": Fn(ret="r"),
    "advance_mut": Fn(spec="""ensures
    // a is filled before b
    cnt <= (*old(self)).spec_a().rem() ==> (*final(self)).spec_a().rem() == (*old(self)).spec_a().rem() - cnt
        && (*final(self)).spec_b().rem() == (*old(self)).spec_b().rem(),
    cnt > (*old(self)).spec_a().rem() ==> (*final(self)).spec_a().rem() == 0
        && (*final(self)).spec_b().rem() == (*old(self)).spec_b().rem() - (cnt - (*old(self)).spec_a().rem()),"""),
}, emit_header="unsafe impl<T, U> BufMut for Chain<T, U> where T: BufMut, U: BufMut,")

SPEC_FWD = r'''
closed spec fn rem(&self) -> nat { (**self).rem() }
closed spec fn put_eff(pre: &Self, post: &Self, op: int, v: int) -> bool { T::put_eff(&**pre, &**post, op, v) }
closed spec fn put_slice_eff(pre: &Self, post: &Self, src: Seq<u8>) -> bool { T::put_slice_eff(&**pre, &**post, src) }
'''
U.macro_block("src/buf/buf_mut.rs", "deref_forward_bufmut", "unsafe impl<T: BufMut + ?Sized> BufMut for &mut T", fwd_fns, spec_items=SPEC_FWD)
U.macro_block("src/buf/buf_mut.rs", "deref_forward_bufmut", "unsafe impl<T: BufMut + ?Sized> BufMut for Box<T>", fwd_fns, spec_items=SPEC_FWD)

# ---- Writer<B> --------------------------------------------------------------------------------
U.text(r"""
#[verifier::external_type_specification]
#[verifier::external_body]
pub struct ExIoError(std::io::Error);
mod io { pub use std::io::Result; }
impl<B> Writer<B> { pub closed spec fn spec_buf(&self) -> B { self.buf } }
""")
U.struct("src/buf/writer.rs", "struct Writer<B>")
U.free_fn("src/buf/writer.rs", "new", Fn(ret="r", spec="ensures r.spec_buf() == buf,"), wrap_mod="writer")
U.block("src/buf/writer.rs", "impl<B: BufMut> Writer<B>", fns={
    "get_ref": Fn(ret="r", spec="ensures *r == self.spec_buf(),"),
    "get_mut": Fn(ret="r", spec="ensures *r == (*old(self)).spec_buf(), (*final(self)).spec_buf() == *final(r),"),
    "into_inner": Fn(ret="r", spec="ensures r == self.spec_buf(),"),
})
U.block("src/buf/writer.rs", "impl<B: BufMut + Sized> io::Write for Writer<B>", emit_header="impl<B: BufMut + Sized> Writer<B>", fns={
    "write": Fn(ret="r", spec="""ensures
    // accepts min(available, offered) bytes - exactly that prefix of src - and never fails
    ({ let n = min_nat(sat((*old(self)).spec_buf().rem()), src@.len());
       r == Ok::<usize, std::io::Error>(n as usize)
       && (*final(self)).spec_buf().rem() == (*old(self)).spec_buf().rem() - n
       && B::put_slice_eff(&(*old(self)).spec_buf(), &(*final(self)).spec_buf(), src@.take(n as int)) }),""",
                hints=[("before_tail", "", "proof { assert(src@.subrange(0, n as int) =~= src@.take(n as int)); }")]),
    "flush": Fn(ret="r", spec="ensures r is Ok, (*final(self)).spec_buf() == (*old(self)).spec_buf(),"),
})
