"""Unit buf_copy (C09, C12): `copy_to_bytes` of Take and Chain and the trait's `take`, verified
verbatim and generically for every length, every inner buffer and every chunking (open item 1 of
DESIGN.md: the Kani twins `kx_take_copy_to_bytes` / `kx_chain_copy_to_bytes` enumerate sizes).

The straddling branch of `Chain::copy_to_bytes` hands `&mut self.a` and `(&mut self.b).take(k)` BY
VALUE to the generic `BytesMut::put<T: Buf>(src: T)`.  What `put` does to the buffers *behind* such
a reference is stated with a prophetic trait-level relation `fin_adv(n)` ("whatever this value
mutably borrows ends up advanced by exactly n bytes"): `&mut T` defines it through `final`, Take
passes it to its inner buffer, owning buffers have nothing to say.  The contract of
`BytesMut::{with_capacity, put, freeze}` is imported here (opaque type): `put` - contents AND
"drains the source exactly" - is proved in V unit bufmut_targets for the verbatim loop, all lengths
(over Kani's extend_from_slice contract); with_capacity / freeze are Kani obligations.

The blanket impl is in scope here (the bodies need `&mut T: Buf`), so the trait's own default
bodies are imported contracts as in unit buf_fwd."""
from vx import Unit, Fn
import buf_fwd
import _prophecy

U = Unit("buf_copy", props=["C09", "C12"])
U.assumptions = [
    "contract of the opaque BytesMut in unit buf_copy: with_capacity(n)@ == [], freeze keeps the contents (Kani: kx_m_constructors, kx_mvec_freeze*, kx_marc_freeze, 8-byte allocations); put(src) appends src.seq() and drains src exactly - PROVED for the verbatim loop in unit bufmut_targets (over the extend_from_slice contract, Kani kx_m_extend_from_slice)",
    "imported contracts of Buf's cursor methods for Take/Chain/&mut T in unit buf_copy: proved in units buf_core and buf_fwd",
]

U.text(r'''
use alloc::boxed::Box;
extern crate alloc;

#[verifier::external_body]
pub struct Bytes { p: *const u8 }
impl View for Bytes { type V = Seq<u8>; uninterp spec fn view(&self) -> Seq<u8>; }

#[verifier::external_body]
pub struct BytesMut { p: *mut u8 }
impl View for BytesMut { type V = Seq<u8>; uninterp spec fn view(&self) -> Seq<u8>; }

impl BytesMut {
    #[verifier::external_body]
    pub fn with_capacity(capacity: usize) -> (r: BytesMut)
        ensures r@ == Seq::<u8>::empty(),
    { unimplemented!() }

    // <BytesMut as BufMut>::put: `while src.has_remaining() { extend_from_slice(src.chunk()); src.advance(l) }`
    #[verifier::external_body]
    pub fn put<T: Buf>(&mut self, src: T)
        requires src.wf(),
        ensures final(self)@ == old(self)@ + src.seq(),
                src.fin_adv(src.seq().len() as int),
    { unimplemented!() }

    #[verifier::external_body]
    pub fn put_slice(&mut self, src: &[u8])
        ensures final(self)@ == old(self)@ + src@,
    { unimplemented!() }

    #[verifier::external_body]
    pub fn extend_from_slice(&mut self, src: &[u8])
        ensures final(self)@ == old(self)@ + src@,
    { unimplemented!() }

    #[verifier::external_body]
    pub fn freeze(self) -> (r: Bytes)
        ensures r@ == self@,
    { unimplemented!() }
}

pub open spec fn min_int(a: int, b: int) -> int { if a < b { a } else { b } }

''' + "\n".join(buf_fwd.spec_decls))

U.struct("src/lib.rs", "struct TryGetError")

trait_fns = dict(buf_fwd.trait_fns)
trait_fns["take"] = Fn(ret="r", spec="ensures r.spec_limit() == limit, r.spec_inner() == self,")
ADV = trait_fns["advance"]
trait_fns["advance"] = Fn(ret=ADV.ret, spec=ADV.spec.rstrip() + "\n    " + _prophecy.ADV_CLAUSE)
U.block("src/buf/buf_impl.rs", "trait Buf", spec_items=_prophecy.SPEC_ITEMS, fns=trait_fns)

fwd = {n: Fn(ret=f.ret, mode="external_body", note="proved in unit buf_fwd") for n, f in buf_fwd.fwd_fns.items()}
# the forwarder of advance is verified here again, now including the prophetic clause
fwd["advance"] = Fn(hints=[("before_tail", "", """let ghost s0 = (**self).seq();
proof {
    assert forall|n: int| 0 <= n <= s0.len() - cnt implies #[trigger] s0.skip(cnt as int).skip(n) =~= s0.skip(n + cnt) by {}
}""")])
U.macro_block("src/buf/buf_impl.rs", "deref_forward_buf", "impl<T: Buf + ?Sized> Buf for &mut T", fwd, spec_items=r'''
closed spec fn seq(&self) -> Seq<u8> { (**self).seq() }
closed spec fn wf(&self) -> bool { (**self).wf() }
#[verifier::prophetic] closed spec fn fin_adv(&self, n: int) -> bool {
    (*final(*self)).wf() && (*final(*self)).seq() == (**self).seq().skip(n)
}
proof fn lemma_resolved(self) { assert((*self).seq().skip(0) =~= (*self).seq()); }
''')

# ---- Take -----------------------------------------------------------------------------------
U.struct("src/buf/take.rs", "struct Take<T>")
U.block("src/buf/take.rs", "impl<T> Take<T>", spec_items=r'''
pub closed spec fn spec_limit(&self) -> usize { self.limit }
pub closed spec fn spec_inner(&self) -> T { self.inner }
''', fns={})
U.free_fn("src/buf/take.rs", "new", Fn(ret="r", spec="ensures r.spec_limit() == limit, r.spec_inner() == inner,"), wrap_mod="take")

# the trait-level contract of copy_to_bytes (Appendix C); the two bodies are emitted in inherent impls
# (a trait impl whose body calls `<&mut Self as Buf>::remaining` is a trait/impl cycle for Verus)
TRAIT_C = """requires (*old(self)).wf(), len <= (*old(self)).seq().len(),
ensures (*final(self)).wf(), r0@ == (*old(self)).seq().take(len as int),
    (*final(self)).seq() == (*old(self)).seq().skip(len as int),"""
IMPORTED = dict(mode="external_body", note="proved in unit buf_core")
U.block("src/buf/take.rs", "impl<T: Buf> Buf for Take<T>", spec_items=r'''
closed spec fn seq(&self) -> Seq<u8> {
    self.inner.seq().take(min_int(self.inner.seq().len() as int, self.limit as int))
}
closed spec fn wf(&self) -> bool { self.inner.wf() }
#[verifier::prophetic] closed spec fn fin_adv(&self, n: int) -> bool { self.inner.fin_adv(n) }
proof fn lemma_resolved(self) { lemma_take_resolved(self); self.inner.lemma_resolved(); }
''', fns={
    "remaining": Fn(ret="r", **IMPORTED),
    "chunk": Fn(ret="r", **IMPORTED),
    # verified here again (as in unit buf_core), now including the prophetic clause
    "advance": Fn(hints=[("body_end", "", """proof {
    assert((*self).seq() =~= (*old(self)).seq().skip(cnt as int));
}""")]),
})
U.text("""
// a dropped Take has dropped its inner buffer (stated so that Verus emits the datatype's resolution axiom)
proof fn lemma_take_resolved<T>(p: Take<T>) requires has_resolved(p) ensures has_resolved(p.inner) {}
""")
U.block("src/buf/take.rs", "impl<T: Buf> Buf for Take<T>", emit_header="impl<T: Buf> Take<T>", fns={
    "copy_to_bytes": Fn(ret="r0", spec=TRAIT_C + """
    // exactly `len` bytes went through the adapter: the limit and the inner buffer both show it
    (*final(self)).spec_limit() == (*old(self)).spec_limit() - len,
    (*final(self)).spec_inner().seq() == (*old(self)).spec_inner().seq().skip(len as int),""",
        hints=[("body_start", "", "let ghost s0 = self.inner.seq(); let ghost l0 = self.limit;"),
               ("before_tail", "", """proof {
    assert(s0.take(min_int(s0.len() as int, l0 as int)).take(len as int) =~= s0.take(len as int));
    assert(self.seq() =~= s0.take(min_int(s0.len() as int, l0 as int)).skip(len as int));
}""")]),
})

# ---- Chain ----------------------------------------------------------------------------------
U.struct("src/buf/chain.rs", "struct Chain<T, U>")
U.block("src/buf/chain.rs", "impl<T, U> Chain<T, U>", spec_items=r'''
pub closed spec fn spec_a(&self) -> T { self.a }
pub closed spec fn spec_b(&self) -> U { self.b }
''', fns={})
U.block("src/buf/chain.rs", "impl<T, U> Buf for Chain<T, U> where T: Buf, U: Buf,", spec_items=r'''
closed spec fn seq(&self) -> Seq<u8> { self.a.seq() + self.b.seq() }
closed spec fn wf(&self) -> bool {
    self.a.wf() && self.b.wf() && self.a.seq().len() + self.b.seq().len() <= usize::MAX
}
#[verifier::prophetic] closed spec fn fin_adv(&self, n: int) -> bool { true }
proof fn lemma_resolved(self) { }
''', fns={
    "remaining": Fn(ret="r", **IMPORTED),
    "chunk": Fn(ret="r", **IMPORTED),
    "advance": Fn(**IMPORTED),
})
U.block("src/buf/chain.rs", "impl<T, U> Buf for Chain<T, U> where T: Buf, U: Buf,", emit_header="impl<T: Buf, U: Buf> Chain<T, U>", fns={
    "copy_to_bytes": Fn(ret="r0", spec=TRAIT_C + """
    // a is consumed before b
    len <= (*old(self)).spec_a().seq().len() ==> (*final(self)).spec_a().seq() == (*old(self)).spec_a().seq().skip(len as int)
        && (*final(self)).spec_b().seq() == (*old(self)).spec_b().seq(),
    len > (*old(self)).spec_a().seq().len() ==> (*final(self)).spec_a().seq().len() == 0
        && (*final(self)).spec_b().seq() == (*old(self)).spec_b().seq().skip(len - (*old(self)).spec_a().seq().len()),""",
        hints=[("body_start", "", "let ghost a0 = self.a.seq(); let ghost b0 = self.b.seq();"),
               ]),
})
