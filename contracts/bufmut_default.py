"""Unit bufmut_default (C11): the DEFAULT loops of trait BufMut - put_slice and put(Buf) - verified
verbatim for ALL chunkings and ALL lengths against the bookkeeping contract: they terminate, never
advance beyond what chunk_mut offered, and lower rem() by exactly the number of bytes written
(put: also consume exactly that many source bytes).  Contents are the Kani side
(kx_default_put_*_loop*, bounded).  No blanket `&mut T` impl in this unit (see buf_fwd.py for why)."""
from vx import Unit, Fn
import _prophecy

U = Unit("bufmut_default", props=["C11"])
U.assumptions = [
    "UninitSlice::copy_from_slice / IndexMut<RangeTo> / len are assumed contracts in unit bufmut_default (proved by kx_uninit_slice_ops)",
]

U.text(r'''
#[verifier::external_body]
pub struct UninitSlice { x: [u8] }

impl UninitSlice {
    pub uninterp spec fn spec_len(&self) -> nat;
    #[verifier::external_body]
    pub fn len(&self) -> (r: usize) ensures r == self.spec_len() { unimplemented!() }
    #[verifier::external_body]
    pub fn copy_from_slice(&mut self, src: &[u8])
        requires old(self).spec_len() == src@.len()
        ensures final(self).spec_len() == old(self).spec_len()
    { unimplemented!() }
}
impl vstd::std_specs::core::IndexSpecImpl<core::ops::RangeTo<usize>> for UninitSlice {
    open spec fn index_req(&self, index: &core::ops::RangeTo<usize>) -> bool { index.end <= self.spec_len() }
}
impl core::ops::Index<core::ops::RangeTo<usize>> for UninitSlice {
    type Output = UninitSlice;
    #[verifier::external_body]
    fn index(&self, index: core::ops::RangeTo<usize>) -> (r: &UninitSlice)
        ensures index.end <= self.spec_len() ==> r.spec_len() == index.end
    { unimplemented!() }
}
impl core::ops::IndexMut<core::ops::RangeTo<usize>> for UninitSlice {
    #[verifier::external_body]
    fn index_mut(&mut self, index: core::ops::RangeTo<usize>) -> (r: &mut UninitSlice)
        ensures index.end <= old(self).spec_len() ==> r.spec_len() == index.end
    { unimplemented!() }
}

#[verifier::external_body]
fn panic_advance(error_info: &TryGetError) -> !
    requires false
{ unimplemented!() }

pub open spec fn sat(a: nat) -> nat { if a > usize::MAX as nat { usize::MAX as nat } else { a } }

// the reading side (contract as in units buf_core / buf_copy, incl. the prophetic part)
''' + _prophecy.TRAIT_TEXT + r'''
''')
U.struct("src/lib.rs", "struct TryGetError")
# the trait lives in a module so that its `super::Buf` bound resolves as in the crate (buf::buf_mut -> buf::Buf)
U.text("pub mod buf_mut {\nuse super::*;")

U.block("src/buf/buf_mut.rs", "trait BufMut", emit_header="pub unsafe trait BufMut", spec_items=r'''
spec fn rem(&self) -> nat;
''', fns={
    "remaining_mut": Fn(ret="r", spec="ensures r as nat == sat(self.rem()),"),
    "advance_mut": Fn(spec="requires cnt <= (*old(self)).rem(),\nensures (*final(self)).rem() == (*old(self)).rem() - cnt,"),
    "chunk_mut": Fn(ret="r", spec="ensures r.spec_len() <= (*old(self)).rem(), (r.spec_len() == 0 <==> (*old(self)).rem() == 0), (*final(self)).rem() == (*old(self)).rem(),"),
    "put_slice": Fn(spec="""requires (*old(self)).rem() >= src@.len(),
ensures (*final(self)).rem() == (*old(self)).rem() - src@.len(),""",
        loops={1: """invariant
    src@.len() <= src0.len(),
    self.rem() >= src@.len(),
    self.rem() + (src0.len() - src@.len()) == (*old(self)).rem(),
decreases src@.len(),"""},
        hints=[("body_start", "", "let ghost src0 = src@;")]),
    "put": Fn(spec="""requires src.wf(), (*old(self)).rem() >= src.seq().len(),
ensures (*final(self)).rem() == (*old(self)).rem() - src.seq().len(),
    // the source is drained exactly (see contracts/_prophecy.py)
    src.fin_adv(src.seq().len() as int),""",
        loops={1: """invariant
    src.wf(),
    src.seq().len() <= n0,
    self.rem() >= src.seq().len(),
    self.rem() + (n0 - src.seq().len()) == (*old(self)).rem(),
    done + src.seq().len() == n0,
    forall|n: int| 0 <= n <= src.seq().len() && #[trigger] src.fin_adv(n) ==> srcv0.fin_adv(n + done),
decreases src.seq().len(),"""},
        hints=[("body_start", "", "let ghost n0 = src.seq().len(); let ghost srcv0 = src; let ghost mut done: int = 0;"),
               ("loop_end", "1", "proof { done = done + cnt; }"),
               ("body_end", "", "proof { src.lemma_resolved(); }")]),
})
U.text("} // mod buf_mut")
