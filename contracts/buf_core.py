"""Unit buf_core: trait Buf (cursor laws) and the crate's generic implementors, verified
verbatim and generically (any nesting depth, any chunking).  Contract text only."""
from vx import Unit, Fn

U = Unit("buf_core", props=["C09", "C12", "C10"])
U.assumptions = [
    "assumed std contracts in unit buf_core (trusted): cmp::min; io::Cursor::{position, set_position, get_ref}; VecDeque::as_slices (r.0 ++ r.1 == contents) and VecDeque::drain(..n) (removes the first n elements, requires n <= len); vstd's own specs of slices and VecDeque::len",
]

U.text(r'''
use core::cmp;

// ---- assumed std contracts (trusted, listed in evidence) -------------------------------
pub assume_specification<T: core::cmp::Ord> [core::cmp::min] (a: T, b: T) -> (r: T)
    ensures T::obeys_cmp_spec() ==> r == (if a.cmp_spec(&b) == core::cmp::Ordering::Greater { b } else { a });

// crate::panic_advance: diverges.  `requires false` = "a verified caller never reaches it",
// i.e. an in-contract call never panics.
#[verifier::external_body]
fn panic_advance(error_info: &TryGetError) -> !
    requires false
{ unimplemented!() }

pub open spec fn min_int(a: int, b: int) -> int { if a < b { a } else { b } }
''')

U.struct("src/lib.rs", "struct TryGetError")

BUF_SPEC = r'''
// the finite byte sequence the cursor denotes, and the representation invariant under
// which the laws are stated (e.g. Chain: the two lengths do not overflow usize together)
spec fn seq(&self) -> Seq<u8>;
spec fn wf(&self) -> bool;
'''

ADV_ENS = "(*final(self)).wf(),\n        (*final(self)).seq() == (*old(self)).seq().skip(cnt as int),"

U.block("src/buf/buf_impl.rs", "trait Buf", spec_items=BUF_SPEC, fns={
    "remaining": Fn(ret="r", spec="requires self.wf(),\nensures r == self.seq().len(),"),
    "chunk": Fn(ret="r", spec="requires self.wf(),\nensures r@.is_prefix_of(self.seq()), (r@.len() == 0 <==> self.seq().len() == 0),"),
    "advance": Fn(spec="requires (*old(self)).wf(), cnt <= (*old(self)).seq().len(),\nensures " + ADV_ENS),
    "has_remaining": Fn(ret="r", spec="requires self.wf(),\nensures r == (self.seq().len() > 0),"),
    # adapter constructors of the trait
    "take": Fn(ret="r", spec="ensures r.spec_limit() == limit, r.spec_inner() == self,"),
    # `chain<U: Buf>` is not extracted: a default method with a bounded type parameter crashes this
    # Verus version (vir/src/traits.rs, inherit_default_bodies); it is the one-liner `Chain::new(self, next)`
    "reader": Fn(ret="r", spec="ensures r.spec_buf() == self,"),
    "copy_to_slice": Fn(spec="""requires (*old(self)).wf(), (*old(self)).seq().len() >= old(dst)@.len(),
ensures (*final(self)).wf(), final(dst)@ == (*old(self)).seq().take(old(dst)@.len() as int),
    (*final(self)).seq() == (*old(self)).seq().skip(old(dst)@.len() as int),""",
        mode="external_body", note="body is `try_copy_to_slice(dst).unwrap_or_else(|e| panic_advance(&e))`: the closure cannot be given a Verus contract without editing exec code; proved by Kani kx_default_copy_to_slice (and on the slow path of every kx_get_*)"),
    "get_u8": Fn(ret="r", spec="requires (*old(self)).wf(), (*old(self)).seq().len() >= 1,\nensures r == (*old(self)).seq()[0], (*final(self)).wf(), (*final(self)).seq() == (*old(self)).seq().skip(1),"),
    "get_i8": Fn(ret="r", spec="requires (*old(self)).wf(), (*old(self)).seq().len() >= 1,\nensures r == (*old(self)).seq()[0] as i8, (*final(self)).wf(), (*final(self)).seq() == (*old(self)).seq().skip(1),"),
    "try_get_u8": Fn(ret="r", spec="""requires (*old(self)).wf(),
ensures (*final(self)).wf(),
    (*old(self)).seq().len() >= 1 ==> r == Ok::<u8, TryGetError>((*old(self)).seq()[0]) && (*final(self)).seq() == (*old(self)).seq().skip(1),
    (*old(self)).seq().len() < 1 ==> r == Err::<u8, TryGetError>(TryGetError { requested: 1, available: 0 }) && (*final(self)).seq() == (*old(self)).seq(),"""),
    "try_get_i8": Fn(ret="r", spec="""requires (*old(self)).wf(),
ensures (*final(self)).wf(),
    (*old(self)).seq().len() >= 1 ==> r == Ok::<i8, TryGetError>((*old(self)).seq()[0] as i8) && (*final(self)).seq() == (*old(self)).seq().skip(1),
    (*old(self)).seq().len() < 1 ==> r == Err::<i8, TryGetError>(TryGetError { requested: 1, available: 0 }) && (*final(self)).seq() == (*old(self)).seq(),"""),
    "try_copy_to_slice": Fn(ret="res", spec="""requires (*old(self)).wf(),
ensures (*final(self)).wf(),
    (*old(self)).seq().len() < old(dst)@.len() ==> res == Err::<(), TryGetError>(TryGetError { requested: old(dst)@.len() as usize, available: (*old(self)).seq().len() as usize })
        && (*final(self)).seq() == (*old(self)).seq() && final(dst)@ == old(dst)@,
    (*old(self)).seq().len() >= old(dst)@.len() ==> res is Ok
        && final(dst)@ == (*old(self)).seq().take(old(dst)@.len() as int)
        && (*final(self)).seq() == (*old(self)).seq().skip(old(dst)@.len() as int),""",
        loops={1: """invariant
    self.wf(),
    dst@.len() <= self.seq().len(),
    dst@.len() <= old(dst)@.len(),
    self.seq() == (*old(self)).seq().skip(old(dst)@.len() - dst@.len()),
    (*old(self)).seq().len() >= old(dst)@.len(),
    final(old(dst))@ == (*old(self)).seq().subrange(0, old(dst)@.len() - dst@.len()) + final(dst)@,
decreases dst@.len(),"""},
        hints=[
            ("loop_start", "1", """let ghost k0 = old(dst)@.len() - dst@.len();
let ghost s0 = (*old(self)).seq();
let ghost sb = self.seq();
let ghost dfin = final(dst)@;"""),
            ("after", "dst[..cnt].copy_from_slice(&src[..cnt]);", "let ghost mid = dst@;"),
            ("loop_end", "1", """proof {
    assert(cnt > 0);
    assert(dfin =~= mid.subrange(0, cnt as int) + final(dst)@);
    assert(mid.subrange(0, cnt as int) =~= sb.subrange(0, cnt as int));
    assert(sb.subrange(0, cnt as int) =~= s0.subrange(k0, k0 + cnt));
    assert(self.seq() =~= s0.skip(k0 + cnt));
    assert(s0.subrange(0, k0) + (s0.subrange(k0, k0 + cnt) + final(dst)@) =~= s0.subrange(0, k0 + cnt) + final(dst)@);
}"""),
            ("before_tail", "", """proof {
    assert((*old(self)).seq().subrange(0, old(dst)@.len() as int) + final(dst)@ =~= (*old(self)).seq().take(old(dst)@.len() as int)) by {
        assert(final(dst)@.len() == dst@.len());
    }
}"""),
        ]),
})

# ---- &[u8] ----------------------------------------------------------------------------------
U.block("src/buf/buf_impl.rs", "impl Buf for &[u8]", spec_items=r'''
open spec fn seq(&self) -> Seq<u8> { self@ }
open spec fn wf(&self) -> bool { true }
''', fns={
    "remaining": Fn(ret="r"),
    "chunk": Fn(ret="r"),
    "advance": Fn(),
    # the specialised (single memcpy) override of the default loop
    "copy_to_slice": Fn(hints=[("body_start", "", "let ghost s0 = self@; let ghost n = dst@.len();"),
                               ("body_end", "", "proof { assert(s0.subrange(0, n as int) =~= s0.take(n as int)); }")]),
})

# ---- Take -----------------------------------------------------------------------------------
U.struct("src/buf/take.rs", "struct Take<T>")
U.block("src/buf/take.rs", "impl<T> Take<T>", spec_items=r'''
pub closed spec fn spec_limit(&self) -> usize { self.limit }
pub closed spec fn spec_inner(&self) -> T { self.inner }
''', fns={
    "into_inner": Fn(ret="r", spec="ensures r == self.spec_inner(),"),
    "get_ref": Fn(ret="r", spec="ensures *r == self.spec_inner(),"),
    "limit": Fn(ret="r", spec="ensures r == self.spec_limit(),"),
    "set_limit": Fn(spec="ensures (*final(self)).spec_limit() == lim, (*final(self)).spec_inner() == (*old(self)).spec_inner(),"),
    # the inner buffer, mutably: whatever the caller does through the reference IS the new inner
    # buffer; the limit is untouched
    "get_mut": Fn(ret="r", spec="ensures *r == (*old(self)).spec_inner(), (*final(self)).spec_inner() == *final(r), (*final(self)).spec_limit() == (*old(self)).spec_limit(),"),
})
U.free_fn("src/buf/take.rs", "new", Fn(ret="r", spec="ensures r.spec_limit() == limit, r.spec_inner() == inner,"), wrap_mod="take")

U.block("src/buf/take.rs", "impl<T: Buf> Buf for Take<T>", spec_items=r'''
// exactly the first min(limit, remaining) bytes of the inner buffer
closed spec fn seq(&self) -> Seq<u8> {
    self.inner.seq().take(min_int(self.inner.seq().len() as int, self.limit as int))
}
closed spec fn wf(&self) -> bool { self.inner.wf() }
''', fns={
    "remaining": Fn(ret="r"),
    "chunk": Fn(ret="r"),
    "advance": Fn(spec="""ensures
    (*final(self)).spec_limit() == (*old(self)).spec_limit() - cnt,
    (*final(self)).spec_inner().seq() == (*old(self)).spec_inner().seq().skip(cnt as int),""",
        hints=[("body_end", "", """proof {
    assert(self.seq() =~= (*old(self)).seq().skip(cnt as int));
}""")]),
})

# ---- Chain ----------------------------------------------------------------------------------
U.struct("src/buf/chain.rs", "struct Chain<T, U>")
U.block("src/buf/chain.rs", "impl<T, U> Chain<T, U>", spec_items=r'''
pub closed spec fn spec_a(&self) -> T { self.a }
pub closed spec fn spec_b(&self) -> U { self.b }
''', fns={
    "new": Fn(ret="r", spec="ensures r.spec_a() == a, r.spec_b() == b,"),
    "first_ref": Fn(ret="r", spec="ensures *r == self.spec_a(),"),
    "last_ref": Fn(ret="r", spec="ensures *r == self.spec_b(),"),
    "first_mut": Fn(ret="r", spec="ensures *r == (*old(self)).spec_a(), (*final(self)).spec_a() == *final(r), (*final(self)).spec_b() == (*old(self)).spec_b(),"),
    "last_mut": Fn(ret="r", spec="ensures *r == (*old(self)).spec_b(), (*final(self)).spec_b() == *final(r), (*final(self)).spec_a() == (*old(self)).spec_a(),"),
    "into_inner": Fn(ret="r", spec="ensures r.0 == self.spec_a(), r.1 == self.spec_b(),"),
})
U.block("src/buf/chain.rs", "impl<T, U> Buf for Chain<T, U> where T: Buf, U: Buf,", spec_items=r'''
// all of a, then all of b
closed spec fn seq(&self) -> Seq<u8> { self.a.seq() + self.b.seq() }
closed spec fn wf(&self) -> bool {
    self.a.wf() && self.b.wf() && self.a.seq().len() + self.b.seq().len() <= usize::MAX
}
''', fns={
    "remaining": Fn(ret="r"),
    "chunk": Fn(ret="r", hints=[("body_start", "", "proof { assert(self.a.seq().len() == 0 ==> self.seq() =~= self.b.seq()); }")]),
    "advance": Fn(spec="""ensures
    // a is consumed before b
    cnt <= (*old(self)).spec_a().seq().len() ==> (*final(self)).spec_a().seq() == (*old(self)).spec_a().seq().skip(cnt as int)
        && (*final(self)).spec_b().seq() == (*old(self)).spec_b().seq(),
    cnt > (*old(self)).spec_a().seq().len() ==> (*final(self)).spec_a().seq().len() == 0
        && (*final(self)).spec_b().seq() == (*old(self)).spec_b().seq().skip(cnt - (*old(self)).spec_a().seq().len()),""",
        hints=[("body_start", "", "let ghost a0 = self.a.seq(); let ghost b0 = self.b.seq(); let ghost cnt0 = cnt;"),
               ("before", "return;", "proof { assert(self.a.seq() + self.b.seq() =~= (a0 + b0).skip(cnt as int)); }"),
               ("body_end", "", """proof {
    assert(self.a.seq().len() == 0);
    assert(self.a.seq() + self.b.seq() =~= (a0 + b0).skip(cnt0 as int));
    assert(b0.skip(0) =~= b0);
}""")]),
})


# ---- IntoIter -------------------------------------------------------------------------------
U.struct("src/buf/iter.rs", "struct IntoIter<T>")
U.block("src/buf/iter.rs", "impl<T> IntoIter<T>", spec_items=r"""
pub closed spec fn spec_inner(&self) -> T { self.inner }
""", fns={
    "new": Fn(ret="r", spec="ensures r.spec_inner() == inner,"),
    "into_inner": Fn(ret="r", spec="ensures r == self.spec_inner(),"),
    "get_ref": Fn(ret="r", spec="ensures *r == self.spec_inner(),"),
    "get_mut": Fn(ret="r", spec="ensures *r == (*old(self)).spec_inner(), (*final(self)).spec_inner() == *final(r),"),
})
U.block("src/buf/iter.rs", "impl<T: Buf> Iterator for IntoIter<T>", emit_header="impl<T: Buf> IntoIter<T>", fns={
    "next": Fn(ret="r", spec="""requires (*old(self)).spec_inner().wf(),
ensures (*final(self)).spec_inner().wf(),
    (*old(self)).spec_inner().seq().len() == 0 ==> r == None::<u8> && (*final(self)).spec_inner().seq() == (*old(self)).spec_inner().seq(),
    (*old(self)).spec_inner().seq().len() > 0 ==> r == Some((*old(self)).spec_inner().seq()[0])
        && (*final(self)).spec_inner().seq() == (*old(self)).spec_inner().seq().skip(1),"""),
    "size_hint": Fn(ret="r", spec="requires self.spec_inner().wf(),\nensures r.0 == self.spec_inner().seq().len(), r.1 == Some(r.0),"),
})

# ---- VecDeque<u8> -----------------------------------------------------------------------------
U.text(r"""
// std::collections::VecDeque: vstd gives the view (Seq) and len(); the two accessors the impl uses
// are ASSUMED std contracts (trusted; the real std code is what the bounded Kani obligations
// kx_vecdeque_* run): as_slices() splits the contents in order, drain(..n) removes the first n
// elements (the Drain value is dropped at once by the impl: `self.drain(..cnt);`)
pub assume_specification<T, A: std::alloc::Allocator> [std::collections::VecDeque::<T, A>::as_slices] (d: &std::collections::VecDeque<T, A>) -> (r: (&[T], &[T]))
    ensures r.0@ + r.1@ == d@;
#[verifier::external_type_specification]
#[verifier::external_body]
#[verifier::reject_recursive_types(T)]
#[verifier::reject_recursive_types(A)]
pub struct ExDrain<'a, T: 'a, A: std::alloc::Allocator>(std::collections::vec_deque::Drain<'a, T, A>);
// `drain` is generic in the range type; the impl calls it with `..cnt` (RangeTo): `range_upto`
// is the number of leading elements a range removes, fixed for RangeTo by the axiom below
pub uninterp spec fn range_upto<R>(r: R) -> int;
#[verifier::external_body]
pub proof fn axiom_range_upto(r: core::ops::RangeTo<usize>)
    ensures range_upto(r) == r.end as int
{ }
pub assume_specification<T, A: std::alloc::Allocator, R: core::ops::RangeBounds<usize>> [std::collections::VecDeque::<T, A>::drain::<R>] (d: &mut std::collections::VecDeque<T, A>, range: R) -> (r: std::collections::vec_deque::Drain<'_, T, A>)
    requires 0 <= range_upto(range) <= old(d)@.len(),
    ensures final(d)@ == old(d)@.skip(range_upto(range));
""")
U.block("src/buf/vec_deque.rs", "impl Buf for VecDeque<u8>", emit_header="impl Buf for std::collections::VecDeque<u8>", spec_items=r"""
open spec fn seq(&self) -> Seq<u8> { self@ }
open spec fn wf(&self) -> bool { true }
""", fns={
    "remaining": Fn(ret="r"),
    "chunk": Fn(ret="r", hints=[("after", "let (s1, s2) = self.as_slices();", "proof { assert(s1@.len() == 0 ==> s1@ + s2@ =~= s2@); }")]),
    "advance": Fn(hints=[("body_start", "", "proof { axiom_range_upto(..cnt); }")]),
})

# ---- io::Cursor<T> ----------------------------------------------------------------------------
U.text(r"""
// std::io::Cursor as an external type with assumed accessor contracts
#[verifier::external_type_specification]
#[verifier::external_body]
#[verifier::accept_recursive_types(T)]
pub struct ExCursor<T>(std::io::Cursor<T>);

pub uninterp spec fn cur_pos<T>(c: &std::io::Cursor<T>) -> u64;
pub uninterp spec fn cur_inner<T>(c: &std::io::Cursor<T>) -> T;

pub assume_specification<T> [std::io::Cursor::<T>::position] (c: &std::io::Cursor<T>) -> (r: u64)
    ensures r == cur_pos(c);
pub assume_specification<T> [std::io::Cursor::<T>::get_ref] (c: &std::io::Cursor<T>) -> (r: &T)
    ensures *r == cur_inner(c);
pub assume_specification<T> [std::io::Cursor::<T>::set_position] (c: &mut std::io::Cursor<T>, pos: u64)
    ensures cur_pos(final(c)) == pos, cur_inner(final(c)) == cur_inner(old(c));

// abstract representative of `T: AsRef<[u8]>` with a pure as_ref (impure impls are C17's subject)
#[verifier::external_body]
pub struct AbsT { p: *const u8 }
pub uninterp spec fn as_ref_view(t: &AbsT) -> Seq<u8>;
impl AbsT {
    #[verifier::external_body]
    fn as_ref(&self) -> (r: &[u8]) ensures r@ == as_ref_view(self) { unimplemented!() }
}
""")
U.free_fn("src/lib.rs", "saturating_sub_usize_u64", Fn(ret="r", spec="ensures r == (if a as int - b as int > 0 { a as int - b as int } else { 0 }),"))
U.free_fn("src/lib.rs", "min_u64_usize", Fn(ret="r", spec="ensures r == (if (a as int) < (b as int) { a as int } else { b as int }),"))
U.block("src/buf/buf_impl.rs", "impl<T: AsRef<[u8]>> Buf for std::io::Cursor<T>",
        emit_header="impl Buf for std::io::Cursor<AbsT>", spec_items=r"""
// the bytes from the cursor position to the end of the underlying slice (nothing if beyond)
closed spec fn seq(&self) -> Seq<u8> {
    let s = as_ref_view(&cur_inner(self));
    if cur_pos(self) as int >= s.len() { Seq::empty() } else { s.skip(cur_pos(self) as int) }
}
closed spec fn wf(&self) -> bool { true }
""", fns={
    "remaining": Fn(ret="r"),
    "chunk": Fn(ret="r"),
    "advance": Fn(spec="ensures cur_inner(&*final(self)) == cur_inner(&*old(self)),",
                  hints=[("body_end", "", """proof {
    let s = as_ref_view(&cur_inner(&*old(self)));
    if cnt > 0 { assert(self.seq() =~= (*old(self)).seq().skip(cnt as int)); }
    else { assert((*old(self)).seq().skip(0) =~= (*old(self)).seq()); }
}""")]),
})

# ---- Reader<B> --------------------------------------------------------------------------------
U.text(r"""
#[verifier::external_type_specification]
#[verifier::external_body]
pub struct ExIoError(std::io::Error);
mod io { pub use std::io::Result; }
""")
U.struct("src/buf/reader.rs", "struct Reader<B>")
U.text("impl<B> Reader<B> { pub closed spec fn spec_buf(&self) -> B { self.buf } }")
U.free_fn("src/buf/reader.rs", "new", Fn(ret="r", spec="ensures r.spec_buf() == buf,"), wrap_mod="reader")
U.block("src/buf/reader.rs", "impl<B: Buf> Reader<B>", fns={
    "get_ref": Fn(ret="r", spec="ensures *r == self.spec_buf(),"),
    "get_mut": Fn(ret="r", spec="ensures *r == (*old(self)).spec_buf(), (*final(self)).spec_buf() == *final(r),"),
    "into_inner": Fn(ret="r", spec="ensures r == self.spec_buf(),"),
})
U.block("src/buf/reader.rs", "impl<B: Buf + Sized> io::Read for Reader<B>", emit_header="impl<B: Buf + Sized> Reader<B>", fns={
    "read": Fn(ret="r", spec="""requires (*old(self)).spec_buf().wf(),
ensures (*final(self)).spec_buf().wf(),
    // transfers min(available, requested) bytes and never fails
    r == Ok::<usize, std::io::Error>(min_int((*old(self)).spec_buf().seq().len() as int, old(dst)@.len() as int) as usize),
    ({ let n = min_int((*old(self)).spec_buf().seq().len() as int, old(dst)@.len() as int);
       final(dst)@ == (*old(self)).spec_buf().seq().take(n) + old(dst)@.skip(n)
       && (*final(self)).spec_buf().seq() == (*old(self)).spec_buf().seq().skip(n) }),"""),
})
U.block("src/buf/reader.rs", "impl<B: Buf + Sized> io::BufRead for Reader<B>", emit_header="impl<B: Buf + Sized> Reader<B>", fns={
    "fill_buf": Fn(ret="r", spec="""requires (*old(self)).spec_buf().wf(),
ensures r is Ok, r->Ok_0@.is_prefix_of((*old(self)).spec_buf().seq()),
    (r->Ok_0@.len() == 0 <==> (*old(self)).spec_buf().seq().len() == 0),"""),
    "consume": Fn(spec="""requires (*old(self)).spec_buf().wf(), amt <= (*old(self)).spec_buf().seq().len(),
ensures (*final(self)).spec_buf().wf(), (*final(self)).spec_buf().seq() == (*old(self)).spec_buf().seq().skip(amt as int),"""),
})
