"""Unit buf_fwd (C09, C10): the `&mut T` and `Box<T>` implementations of Buf, i.e. every method
of `deref_forward_buf!`, verified against "the forwarder IS the inner buffer's method": same
result, same effect on the denoted sequence.  The trait's own default bodies are not verified in
this unit (external_body): try_copy_to_slice/has_remaining/get_u8/... are proved in unit buf_core,
the macro-generated get_X/try_get_X in the Kani obligations kx_get_* / kx_try_get_* (C10).

Why a separate unit: with the blanket `impl Buf for &mut T` in scope, `self.remaining()` inside a
default method with a `&mut self` receiver resolves to `<&mut Self as Buf>::remaining` (autoref
before deref) - in rustc as well as in Verus - and Verus rejects the resulting trait/impl cycle.
Unit buf_core therefore contains no blanket impl; this unit shows the blanket impl is
contract-equivalent to the inner method, which is what makes the two readings agree."""
import re
from vx import Unit, Fn, source
from rustlex import items_in, fn_name, match_close

U = Unit("buf_fwd", props=["C09", "C10"])
U.assumptions = [
    "imported contracts of Buf's default methods in unit buf_fwd: proved in unit buf_core (cursor methods) and by kx_get_*/kx_try_get_* (typed getters)",
]

SIZES = {"u8": 1, "i8": 1, "u16": 2, "i16": 2, "u32": 4, "i32": 4, "u64": 8, "i64": 8, "u128": 16, "i128": 16, "f32": 4, "f64": 8}


def macro_fns():
    sf = source("src/buf/buf_impl.rs")
    mac = [it for it in sf.top_items() if it.kind == "macro_rules" and it.header[2].text == "deref_forward_buf"][0]
    i = mac.b0 + 1
    b0 = i + 3
    b1 = match_close(sf.toks, b0)
    return [fn_name(c) for c in items_in(sf.src, sf.toks, b0 + 1, b1) if c.kind == "fn"]


def trait_default_names():
    sf = source("src/buf/buf_impl.rs")
    tr = sf.find("trait Buf")[0]
    res = {}
    for c in sf.children(tr):
        if c.kind == "fn":
            res[fn_name(c)] = (sf.toks[c.b0].text == "{")
    return res


NAMES = [n for n in macro_fns() if n != "chunks_vectored"]
HAS_BODY = trait_default_names()

spec_decls = []
trait_fns = {}
fwd_fns = {}
ADV = "(*final(self)).wf(), (*final(self)).seq() == (*old(self)).seq().skip(%s),"
for n in NAMES:
    mode = "external_body" if HAS_BODY.get(n) else "verify"
    note = "proved elsewhere: unit buf_core or Kani kx_%s" % n
    m = re.match(r"^(try_)?get_(u8|i8|u16|i16|u32|i32|u64|i64|u128|i128|f32|f64|uint|int)(_le|_ne)?$", n)
    if n == "remaining":
        f = Fn(ret="r", spec="requires self.wf(),\nensures r == self.seq().len(),")
    elif n == "chunk":
        f = Fn(ret="r", spec="requires self.wf(),\nensures r@.is_prefix_of(self.seq()), (r@.len() == 0 <==> self.seq().len() == 0),")
    elif n == "advance":
        f = Fn(spec="requires (*old(self)).wf(), cnt <= (*old(self)).seq().len(),\nensures " + ADV % "cnt as int")
    elif n == "has_remaining":
        f = Fn(ret="r", spec="requires self.wf(),\nensures r == (self.seq().len() > 0),", mode=mode, note=note)
    elif n == "copy_to_slice":
        f = Fn(spec="""requires (*old(self)).wf(), (*old(self)).seq().len() >= old(dst)@.len(),
ensures (*final(self)).wf(), final(dst)@ == (*old(self)).seq().take(old(dst)@.len() as int),
    (*final(self)).seq() == (*old(self)).seq().skip(old(dst)@.len() as int),""", mode=mode, note=note)
    elif n == "try_copy_to_slice":
        f = Fn(ret="res", spec="""requires (*old(self)).wf(),
ensures (*final(self)).wf(),
    (*old(self)).seq().len() < old(dst)@.len() ==> res == Err::<(), TryGetError>(TryGetError { requested: old(dst)@.len() as usize, available: (*old(self)).seq().len() as usize })
        && (*final(self)).seq() == (*old(self)).seq() && final(dst)@ == old(dst)@,
    (*old(self)).seq().len() >= old(dst)@.len() ==> res is Ok
        && final(dst)@ == (*old(self)).seq().take(old(dst)@.len() as int)
        && (*final(self)).seq() == (*old(self)).seq().skip(old(dst)@.len() as int),""", mode=mode, note=note)
    elif n == "copy_to_bytes":
        f = Fn(ret="r", spec="""requires (*old(self)).wf(), len <= (*old(self)).seq().len(),
ensures (*final(self)).wf(), r@ == (*old(self)).seq().take(len as int),
    (*final(self)).seq() == (*old(self)).seq().skip(len as int),""", mode=mode, note="default body: Kani kx_buf_copy_to_bytes_*")
    elif m:
        try_, ty, suf = m.group(1), m.group(2), m.group(3) or ""
        var = ty in ("uint", "int")
        rty = {"uint": "u64", "int": "i64"}.get(ty, ty)
        size = "nbytes as int" if var else str(SIZES[ty])
        arg = ", nbytes" if var else ""
        argd = ", nbytes: usize" if var else ""
        if try_:
            spec_decls.append("pub uninterp spec fn spec_%s(s: Seq<u8>%s) -> Result<%s, TryGetError>;" % (n, argd, rty))
            f = Fn(ret="r", spec="""requires (*old(self)).wf(),%s
ensures (*final(self)).wf(), r == spec_%s((*old(self)).seq()%s),
    (*old(self)).seq().len() >= %s ==> (*final(self)).seq() == (*old(self)).seq().skip(%s),
    (*old(self)).seq().len() < %s ==> (*final(self)).seq() == (*old(self)).seq(),""" % (
                (" nbytes <= 8," if var else ""), n, arg, size, size, size), mode=mode, note=note)
        else:
            spec_decls.append("pub uninterp spec fn spec_%s(s: Seq<u8>%s) -> %s;" % (n, argd, rty))
            f = Fn(ret="r", spec="""requires (*old(self)).wf(), (*old(self)).seq().len() >= %s,%s
ensures r == spec_%s((*old(self)).seq()%s), %s""" % (
                size, (" nbytes <= 8," if var else ""), n, arg, ADV % size), mode=mode, note=note)
    else:
        raise Exception("buf_fwd: no contract table entry for forwarded method `%s` (new method in deref_forward_buf!?)" % n)
    trait_fns[n] = f
    fwd_fns[n] = Fn(ret=f.ret)

U.text(r'''
use alloc::boxed::Box;
extern crate alloc;

#[verifier::external_body]
pub struct Bytes { p: *const u8 }
impl View for Bytes { type V = Seq<u8>; uninterp spec fn view(&self) -> Seq<u8>; }
mod crate_alias { pub use super::Bytes; }

// one uninterpreted decoding function per typed getter: the forwarders must compute THE SAME
// function of the inner sequence as the inner method (a forwarder calling a sibling getter fails)
''' + "\n".join(spec_decls))

U.struct("src/lib.rs", "struct TryGetError")
U.block("src/buf/buf_impl.rs", "trait Buf", spec_items='''
spec fn seq(&self) -> Seq<u8>;
spec fn wf(&self) -> bool;
''', fns=trait_fns)

SPEC_FWD = r'''
closed spec fn seq(&self) -> Seq<u8> { (**self).seq() }
closed spec fn wf(&self) -> bool { (**self).wf() }
'''
U.macro_block("src/buf/buf_impl.rs", "deref_forward_buf", "impl<T: Buf + ?Sized> Buf for &mut T", fwd_fns, spec_items=SPEC_FWD)
U.macro_block("src/buf/buf_impl.rs", "deref_forward_buf", "impl<T: Buf + ?Sized> Buf for Box<T>", fwd_fns, spec_items=SPEC_FWD)
