"""Unit bufmut_targets (C11): the growable BufMut targets `Vec<u8>` and `BytesMut` at CONTENT level,
verified verbatim for all lengths and all chunkings of the source: `put(Buf)` appends exactly the
source's byte sequence (loop invariant), `put_slice` appends exactly the slice, `Vec::put_bytes`
appends exactly `cnt` copies, `remaining_mut` is the documented function of the length.
The Kani obligations kx_vec_target / kx_bytesmut_target are the bounded twins on the real types.

`BytesMut` is an opaque type here; `extend_from_slice` is an ASSUMED contract proved by Kani
(kx_m_extend_from_slice, allocation of 8 bytes).  For `Vec<u8>` the std contracts are vstd's."""
from vx import Unit, Fn
import _prophecy

U = Unit("bufmut_targets", props=["C11"])
U.assumptions = [
    "assumed contract (unit bufmut_targets): BytesMut::extend_from_slice appends exactly the slice, BytesMut::len - proved by Kani kx_m_extend_from_slice / kx_bytes_mut_as_slice_is_the_view (bounded: allocation of 8 bytes)",
    "vstd's contracts of Vec::{len, reserve, extend_from_slice, resize} and usize::saturating_add (trusted std specs)",
]

U.text(r'''
extern crate alloc;
use alloc::vec::Vec;

#[verifier::external_body]
pub struct BytesMut { p: *mut u8 }
impl View for BytesMut { type V = Seq<u8>; uninterp spec fn view(&self) -> Seq<u8>; }
impl BytesMut {
    #[verifier::external_body]
    pub fn extend_from_slice(&mut self, extend: &[u8])
        ensures final(self)@ == old(self)@ + extend@,
    { unimplemented!() }
    #[verifier::external_body]
    pub fn len(&self) -> (r: usize)
        ensures r == self@.len(),
    { unimplemented!() }
}

// the reading side (contract as in units buf_core / buf_copy, incl. the prophetic part)
''' + _prophecy.TRAIT_TEXT + r'''
pub open spec fn fill(val: u8, cnt: nat) -> Seq<u8> { Seq::new(cnt, |i: int| val) }
''')

U.text("pub mod buf_mut {\nuse super::*;")
IMPORTED = dict(mode="external_body", note="default body: unit bufmut_default (bookkeeping) and Kani kx_default_put_* (contents)")
U.block("src/buf/buf_mut.rs", "trait BufMut", emit_header="pub unsafe trait BufMut", spec_items=r'''
// everything written so far (for growable targets: the whole contents)
spec fn content(&self) -> Seq<u8>;
// the documented value of remaining_mut() for this target
spec fn rem_of(&self) -> int;
''', fns={
    "remaining_mut": Fn(ret="r", spec="ensures r == self.rem_of(),"),
    "put": Fn(spec=_prophecy.PUT_SPEC, **IMPORTED),
    "put_slice": Fn(spec="ensures (*final(self)).content() == (*old(self)).content() + src@,", **IMPORTED),
    "put_bytes": Fn(spec="requires (*old(self)).content().len() + cnt <= usize::MAX,\nensures (*final(self)).content() == (*old(self)).content() + fill(val, cnt as nat),", **IMPORTED),
})

PUT_LOOP, PUT_HINTS = _prophecy.PUT_LOOP, _prophecy.PUT_HINTS

U.block("src/buf/buf_mut.rs", "impl BufMut for Vec<u8>", spec_items=r'''
open spec fn content(&self) -> Seq<u8> { self@ }
open spec fn rem_of(&self) -> int { isize::MAX as int - self@.len() }
''', fns={
    "remaining_mut": Fn(ret="r", mode="external_body", note="Verus has no spec for the legacy constant core::isize::MAX: Kani kx_vec_target"),
    "put": Fn(loops=PUT_LOOP, hints=PUT_HINTS),
    "put_slice": Fn(),
    "put_bytes": Fn(hints=[("body_end", "", "proof { assert(self@ =~= old(self)@ + fill(val, cnt as nat)); }")]),
})
U.text("} // mod buf_mut\nuse buf_mut::BufMut;")

U.block("src/bytes_mut.rs", "impl BufMut for BytesMut", spec_items=r'''
open spec fn content(&self) -> Seq<u8> { self@ }
open spec fn rem_of(&self) -> int { usize::MAX as int - self@.len() }
''', fns={
    "remaining_mut": Fn(ret="r"),
    "put": Fn(loops=PUT_LOOP, hints=PUT_HINTS),
    "put_slice": Fn(),
    "put_bytes": Fn(mode="external_body", note="unsafe body (write_bytes into spare capacity): Kani kx_m_resize_put_bytes"),
})
