"""Unit cmp (C14): every hand-written PartialEq / PartialOrd / Ord impl of Bytes and BytesMut,
extracted verbatim, verified against "the result is that function of the two byte views, in
THIS operand order".  Contract text only; one table row per impl block."""
from vx import Unit, Fn

U = Unit("cmp", props=["C14"])
U.assumptions = [
    "std contract (assumed): ==, partial_cmp, cmp on [u8] are eq / lex_cmp of the element sequences (lex_cmp uninterpreted)",
    "std contract (assumed): str::as_bytes / String::as_bytes / String[..] denote one uninterpreted byte sequence per string",
    "Bytes::as_slice / BytesMut::as_slice return the handle's view (ptr,len) - proved on the Kani side (kx_*_as_slice, C01)",
]

U.text(r'''
use core::cmp;
use core::hash;
use core::borrow::Borrow;
use core::ops::Deref;
use vstd::string::StringSliceAdditionalSpecFns;

// Bytes / BytesMut are opaque here: only their byte view matters for C14.
#[verifier::external_body]
pub struct Bytes { p: *const u8 }
#[verifier::external_body]
pub struct BytesMut { p: *const u8 }

impl View for Bytes { type V = Seq<u8>; uninterp spec fn view(&self) -> Seq<u8>; }
impl View for BytesMut { type V = Seq<u8>; uninterp spec fn view(&self) -> Seq<u8>; }

impl Bytes {
    #[verifier::external_body]
    fn as_slice(&self) -> (r: &[u8]) ensures r@ == self@ { unimplemented!() }
}
impl BytesMut {
    #[verifier::external_body]
    fn as_slice(&self) -> (r: &[u8]) ensures r@ == self@ { unimplemented!() }
}

// the lexicographic order on byte strings: uninterpreted - C14 needs only that every impl IS this
// function of the two views, in the stated operand order
pub uninterp spec fn lex_cmp(a: Seq<u8>, b: Seq<u8>) -> cmp::Ordering;
// vstd specifies str::as_bytes as `spec_bytes` (the UTF-8 encoding of the string)
pub open spec fn str_bytes(s: &str) -> Seq<u8> { s.spec_bytes() }
pub uninterp spec fn string_bytes(s: &String) -> Seq<u8>;

// trusted std contracts for slices of u8
pub axiom fn ax_slice_u8()
    ensures
        <[u8] as PartialOrdSpec<[u8]>>::obeys_partial_cmp_spec(),
        <[u8] as PartialEqSpec<[u8]>>::obeys_eq_spec(),
        <[u8] as OrdSpec>::obeys_cmp_spec(),
        forall |a: &[u8], b: &[u8]| #[trigger] PartialOrdSpec::partial_cmp_spec(a, b) == Some(lex_cmp(a@, b@)),
        forall |a: &[u8], b: &[u8]| #[trigger] OrdSpec::cmp_spec(a, b) == lex_cmp(a@, b@),
        forall |a: &[u8], b: &[u8]| #[trigger] PartialEqSpec::eq_spec(a, b) == (a@ == b@);

pub assume_specification [String::as_bytes] (s: &String) -> (r: &[u8])
    ensures r@ == string_bytes(s);

// std contract (assumed): hashing a slice feeds the hasher one uninterpreted function of the
// hasher state and the element sequence.  C14 needs only that Bytes / BytesMut feed THE SAME thing
// as the borrowed [u8] (what Borrow<[u8]>-keyed maps require).
pub uninterp spec fn hash_slice<T, H>(pre: H, s: Seq<T>) -> H;
pub assume_specification<T: hash::Hash, H: hash::Hasher> [<[T] as hash::Hash>::hash] (s: &[T], state: &mut H)
    ensures *final(state) == hash_slice::<T, H>(*old(state), s@);
''')

# Deref / AsRef used by the one-liners (deref coercions)
U.block("src/bytes.rs", "impl Deref for Bytes", fns={"deref": Fn(ret="r", spec="ensures r@ == self@,")})
U.block("src/bytes.rs", "impl AsRef<[u8]> for Bytes", fns={"as_ref": Fn(ret="r", spec="ensures r@ == self@,")})
U.block("src/bytes_mut.rs", "impl AsRef<[u8]> for BytesMut", fns={"as_ref": Fn(ret="r", spec="ensures r@ == self@,")})
U.block("src/bytes_mut.rs", "impl Deref for BytesMut", fns={"deref": Fn(ret="r", spec="ensures r@ == self@,")})

VIEW = {
    "Bytes": "{}@", "BytesMut": "{}@", "[u8]": "{}@", "Vec<u8>": "{}@", "&[u8]": "{}@",
    "str": "str_bytes({})", "&str": "str_bytes(*{})", "String": "string_bytes({})",
}
HINT = ("body_start", "", """proof {
    ax_slice_u8();
    assert(forall |s: Seq<u8>| #[trigger] s.subrange(0, s.len() as int) =~= s);
}""")


def spec_impl(kind, slf, rhs):
    a, b = VIEW[slf].format("self"), VIEW[rhs].format("other")
    if kind == "eq":
        return """impl PartialEqSpecImpl<%s> for %s {
    open spec fn obeys_eq_spec() -> bool { true }
    open spec fn eq_spec(&self, other: &%s) -> bool { %s == %s }
}""" % (rhs, slf, rhs, a, b)
    if kind == "partial_cmp":
        return """impl PartialOrdSpecImpl<%s> for %s {
    open spec fn obeys_partial_cmp_spec() -> bool { true }
    open spec fn partial_cmp_spec(&self, other: &%s) -> Option<cmp::Ordering> { Some(lex_cmp(%s, %s)) }
}""" % (rhs, slf, rhs, a, b)
    if kind == "cmp":
        return """impl OrdSpecImpl for %s {
    open spec fn obeys_cmp_spec() -> bool { true }
    open spec fn cmp_spec(&self, other: &%s) -> cmp::Ordering { lex_cmp(%s, %s) }
}""" % (slf, rhs, a, b)


OUT_OF_REACH = []


def add(file, slf, rhs, kind, extract=True):
    trait = {"eq": "PartialEq", "partial_cmp": "PartialOrd", "cmp": "Ord"}[kind]
    if slf == rhs and kind != "cmp":
        header = "impl %s for %s" % (trait, slf)
    elif kind == "cmp":
        header = "impl Ord for %s" % slf
    else:
        header = "impl %s<%s> for %s" % (trait, rhs, slf)
    U.text(spec_impl(kind, slf, rhs))
    if extract:
        U.block(file, header, fns={kind: Fn(ret="r", hints=[HINT])})
    else:
        OUT_OF_REACH.append(header)
        U.block(file, header, fns={kind: Fn(ret="r", mode="external_body",
                note="`other[..]` on String: vstd has no Index<RangeFull> spec for String and the orphan rule forbids adding one; covered by the bounded Kani twin kx_cmp_string_eq")})


for ty, file in (("Bytes", "src/bytes.rs"), ("BytesMut", "src/bytes_mut.rs")):
    add(file, ty, ty, "eq")
    add(file, ty, ty, "partial_cmp")
    U.block(file, "impl Eq for %s" % ty, fns={})
    add(file, ty, ty, "cmp")
    for other in ("[u8]", "str", "Vec<u8>", "String"):
        add(file, ty, other, "eq", extract=(other != "String"))
        add(file, ty, other, "partial_cmp")
        add(file, other, ty, "eq")
        add(file, other, ty, "partial_cmp")
    # blanket impls through a reference on the right-hand side
    U.text("""impl<'a, T: ?Sized> PartialEqSpecImpl<&'a T> for %s where %s: PartialEq<T> {
    open spec fn obeys_eq_spec() -> bool { <%s as PartialEqSpec<T>>::obeys_eq_spec() }
    open spec fn eq_spec(&self, other: &&'a T) -> bool { <%s as PartialEqSpec<T>>::eq_spec(self, *other) }
}
impl<'a, T: ?Sized> PartialOrdSpecImpl<&'a T> for %s where %s: PartialOrd<T> {
    open spec fn obeys_partial_cmp_spec() -> bool { <%s as PartialOrdSpec<T>>::obeys_partial_cmp_spec() }
    open spec fn partial_cmp_spec(&self, other: &&'a T) -> Option<cmp::Ordering> { <%s as PartialOrdSpec<T>>::partial_cmp_spec(self, *other) }
}""" % ((ty,) * 8))
    U.block(file, "impl<'a, T: ?Sized> PartialEq<&'a T> for %s where %s: PartialEq<T>," % (ty, ty), fns={"eq": Fn(ret="r")})
    U.block(file, "impl<'a, T: ?Sized> PartialOrd<&'a T> for %s where %s: PartialOrd<T>," % (ty, ty), fns={"partial_cmp": Fn(ret="r")})
    for other in ("&[u8]", "&str"):
        add(file, other, ty, "eq")
        add(file, other, ty, "partial_cmp")
add("src/bytes_mut.rs", "Bytes", "BytesMut", "eq")
add("src/bytes_mut.rs", "BytesMut", "Bytes", "eq")

# ---- Hash and Borrow: the same bytes as the borrowed [u8] -------------------------------------------
for ty, file in (("Bytes", "src/bytes.rs"), ("BytesMut", "src/bytes_mut.rs")):
    U.block(file, "impl hash::Hash for %s" % ty, fns={
        "hash": Fn(spec="ensures *final(state) == hash_slice::<u8, H>(*old(state), self@),")})
    U.block(file, "impl Borrow<[u8]> for %s" % ty, fns={"borrow": Fn(ret="r", spec="ensures ({ let s: &[u8] = r; s@ == self@ }),")})
