"""Shared contract text (no unit): the prophetic part of the Buf contract, used where a buffer is
handed BY VALUE to a generic consumer although it is (or contains) a `&mut` borrow of the caller's
buffer - `ret.put(&mut self.a)`, `ret.put((&mut self.b).take(k))` in Chain::copy_to_bytes.

  fin_adv(n)       "whatever this value mutably borrows ends up, when the borrow expires, advanced by
                   exactly n bytes from what it denotes now" - `&mut T`: through `final`; Take: its
                   inner buffer; owning buffers / Chain: nothing to say (true).
  advance(cnt)     additionally: if the NEW value ends up advanced by n, the OLD one ends up advanced
                   by n + cnt (the borrow is the same one).
  lemma_resolved   when the value is dropped nothing more happens to what it borrows: fin_adv(0).
"""

SPEC_ITEMS = r'''
spec fn seq(&self) -> Seq<u8>;
spec fn wf(&self) -> bool;
// whatever this value mutably borrows ends up (when the borrow expires) advanced by exactly n bytes
#[verifier::prophetic] spec fn fin_adv(&self, n: int) -> bool;
proof fn lemma_resolved(self) where Self: Sized
    requires has_resolved(self), self.wf()
    ensures self.fin_adv(0);
'''

ADV_CLAUSE = "forall|n: int| 0 <= n <= (*final(self)).seq().len() && #[trigger] (*final(self)).fin_adv(n) ==> (*old(self)).fin_adv(n + cnt),"

# the whole trait contract as text, for units that do not extract `trait Buf` from the source
TRAIT_TEXT = r'''
pub trait Buf {
''' + SPEC_ITEMS + r'''
    fn remaining(&self) -> (r: usize) requires self.wf(), ensures r == self.seq().len();
    fn chunk(&self) -> (r: &[u8]) requires self.wf(), ensures r@.is_prefix_of(self.seq()), (r@.len() == 0 <==> self.seq().len() == 0);
    fn advance(&mut self, cnt: usize)
        requires (*old(self)).wf(), cnt <= (*old(self)).seq().len(),
        ensures (*final(self)).wf(), (*final(self)).seq() == (*old(self)).seq().skip(cnt as int),
            ''' + ADV_CLAUSE + r'''
    ;
    fn has_remaining(&self) -> (r: bool) requires self.wf(), ensures r == (self.seq().len() > 0);
}
'''

# loop invariant / hints of `put<T: Buf>(&mut self, mut src: T)` written as
#   while src.has_remaining() { let s = src.chunk(); let l = s.len(); self.extend_from_slice(s); src.advance(l); }
PUT_LOOP = {1: """invariant
    src.wf(),
    self@ + src.seq() == old(self)@ + src0,
    done + src.seq().len() == src0.len(),
    forall|n: int| 0 <= n <= src.seq().len() && #[trigger] src.fin_adv(n) ==> srcv0.fin_adv(n + done),
decreases src.seq().len(),"""}
PUT_HINTS = [("body_start", "", "let ghost src0 = src.seq(); let ghost srcv0 = src; let ghost mut done: int = 0;"),
             ("loop_start", "1", "let ghost before = self@; let ghost rest = src.seq();"),
             ("loop_end", "1", """proof {
    assert(l > 0);
    assert(rest =~= s@ + rest.skip(l as int));
    assert(self@ + src.seq() =~= before + rest);
    done = done + l;
}"""),
             ("body_end", "", """proof {
    assert(self@ + src.seq() =~= self@);
    src.lemma_resolved();
}""")]
PUT_SPEC = """requires src.wf(),
ensures (*final(self)).content() == (*old(self)).content() + src.seq(),
    // the source is drained exactly: what it borrows ends up advanced by all of its bytes
    src.fin_adv(src.seq().len() as int),"""
