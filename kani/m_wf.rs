// @parent src/bytes_mut.rs
// Representation invariants and symbolic pre-state builders for `BytesMut` and for `Bytes`
// handles on a bytes_mut::Shared block (DESIGN.md Appendix A).  No harness here.
#![allow(dead_code, unused_imports, unused_variables, unused_mut)]
use super::*;

pub const MAXCAP: usize = 1usize << 40;
/// bits 2..=4 of an inline-Vec `data` word hold original_capacity_repr (Appendix A).  Stated here,
/// not taken from the crate, so that the invariant does not move with the code (seed C04-6).
pub const REPR_MASK: usize = 0b11100;

#[derive(Clone, Copy)]
pub struct MGhost {
    pub base: *mut u8,   // allocation base (Vec pointer)
    pub vcap: usize,     // allocation size
    pub off: usize,      // view offset from base
    pub len: usize,
    pub cap: usize,      // handle capacity (region [ptr, ptr+cap))
    pub repr: usize,     // original_capacity_repr
    pub shared: *mut Shared,
    pub k: usize,
}

pub fn alloc_sym() -> (*mut u8, usize) {
    let cap: usize = kani::any();
    kani::assume(cap >= 1 && cap <= MAXCAP);
    let v: Vec<u8> = Vec::with_capacity(cap);
    let mut v = ManuallyDrop::new(v);
    kani::assume(v.capacity() == cap);
    (v.as_mut_ptr(), cap)
}

pub fn alloc_fixed(cap: usize) -> (*mut u8, usize) {
    let v: Vec<u8> = Vec::with_capacity(cap);
    let mut v = ManuallyDrop::new(v);
    kani::assume(v.capacity() == cap);
    (v.as_mut_ptr(), cap)
}

pub fn any_repr() -> usize {
    let r: usize = kani::any();
    kani::assume(r <= 7);
    r
}

/// KIND_VEC handle over (base, vcap): front offset `off`, the region always runs to the end
/// of the allocation (cap + off == vcap), sole handle
pub fn mvec_on(base: *mut u8, vcap: usize) -> (BytesMut, MGhost) {
    let off: usize = kani::any();
    let len: usize = kani::any();
    kani::assume(off <= vcap && len <= vcap - off && off <= MAX_VEC_POS);
    let cap = vcap - off;
    let repr = any_repr();
    let data = (off << VEC_POS_OFFSET) | (repr << ORIGINAL_CAPACITY_OFFSET) | KIND_VEC;
    let b = BytesMut { ptr: vptr(unsafe { base.add(off) }), len, cap, data: invalid_ptr(data) };
    (b, MGhost { base, vcap, off, len, cap, repr, shared: core::ptr::null_mut(), k: 1 })
}

pub fn any_mvec() -> (BytesMut, MGhost) {
    let (base, vcap) = alloc_sym();
    mvec_on(base, vcap)
}

/// control block over (base, vcap) with count k; `vec.len` carries no meaning (symbolic)
pub fn shared_on(base: *mut u8, vcap: usize, k: usize) -> (*mut Shared, usize) {
    let vlen: usize = kani::any();
    kani::assume(vlen <= vcap);
    let repr = any_repr();
    let vec = unsafe { Vec::from_raw_parts(base, vlen, vcap) };
    let shared = Box::into_raw(Box::new(Shared { vec, original_capacity_repr: repr, ref_count: AtomicUsize::new(k) }));
    (shared, repr)
}

pub fn any_count() -> usize {
    let k: usize = kani::any();
    kani::assume(k >= 1 && k <= isize::MAX as usize);
    k
}

/// KIND_ARC BytesMut: region [base+off, base+off+cap) inside the block's allocation
pub fn marc_on(base: *mut u8, vcap: usize, k: usize) -> (BytesMut, MGhost) {
    let (shared, repr) = shared_on(base, vcap, k);
    let off: usize = kani::any();
    let cap: usize = kani::any();
    let len: usize = kani::any();
    kani::assume(off <= vcap && cap <= vcap - off && len <= cap);
    let b = BytesMut { ptr: vptr(unsafe { base.add(off) }), len, cap, data: shared };
    (b, MGhost { base, vcap, off, len, cap, repr, shared, k })
}

pub fn any_marc() -> (BytesMut, MGhost) {
    let (base, vcap) = alloc_sym();
    marc_on(base, vcap, any_count())
}

pub fn any_marc_unique() -> (BytesMut, MGhost) {
    let (base, vcap) = alloc_sym();
    marc_on(base, vcap, 1)
}

/// frozen view: a `Bytes` with bytes_mut::SHARED_VTABLE on such a block
pub fn sharedv_on(base: *mut u8, vcap: usize, k: usize) -> (Bytes, MGhost) {
    let (shared, repr) = shared_on(base, vcap, k);
    let off: usize = kani::any();
    let len: usize = kani::any();
    kani::assume(off <= vcap && len <= vcap - off);
    let b = unsafe { Bytes::with_vtable(base.add(off), len, AtomicPtr::new(shared.cast()), &SHARED_VTABLE) };
    (b, MGhost { base, vcap, off, len, cap: len, repr, shared, k })
}

pub fn any_sharedv() -> (Bytes, MGhost) {
    let (base, vcap) = alloc_sym();
    sharedv_on(base, vcap, any_count())
}

// ---- predicates ---------------------------------------------------------------------------
pub fn count(g: &MGhost) -> usize {
    unsafe { (*g.shared).ref_count.load(Ordering::Relaxed) }
}

pub fn block_intact(g: &MGhost) -> bool {
    unsafe {
        (*g.shared).vec.as_ptr() as usize == g.base as usize
            && (*g.shared).vec.capacity() == g.vcap
            && (*g.shared).original_capacity_repr == g.repr
    }
}

/// `b` is a well-formed KIND_ARC handle on g's block with region (p, len, cap)
pub fn wf_marc(b: &BytesMut, g: &MGhost, p: usize, len: usize, cap: usize) -> bool {
    b.kind() == KIND_ARC
        && b.data == g.shared
        && b.ptr.as_ptr() as usize == p
        && b.len == len
        && b.cap == cap
        && len <= cap
        && p >= g.base as usize
        && p - g.base as usize <= g.vcap
        && cap <= g.vcap - (p - g.base as usize)
}

/// `b` is a well-formed KIND_VEC handle over (base, vcap) with front offset `off`
pub fn wf_mvec(b: &BytesMut, base: usize, vcap: usize, off: usize, len: usize, repr: usize) -> bool {
    b.kind() == KIND_VEC
        && (b.data as usize) >> VEC_POS_OFFSET == off
        && ((b.data as usize) & REPR_MASK) >> ORIGINAL_CAPACITY_OFFSET == repr
        && b.ptr.as_ptr() as usize == base + off
        && b.len == len
        && off <= vcap
        && b.cap == vcap - off
        && len <= b.cap
}

pub fn plant_m(b: &BytesMut) -> (usize, u8) {
    let i: usize = kani::any();
    let x: u8 = kani::any();
    if b.len > 0 {
        kani::assume(i < b.len);
        unsafe { *b.ptr.as_ptr().add(i) = x };
    }
    (i, x)
}

/// a byte of the allocation OUTSIDE the handle's own region: must never change (frame)
pub fn plant_outside(g: &MGhost) -> (usize, u8) {
    let j: usize = kani::any();
    let y: u8 = kani::any();
    kani::assume(j < g.vcap && (j < g.off || j >= g.off + g.cap));
    unsafe { *g.base.add(j) = y };
    (j, y)
}

/// private fields, for harnesses living in other modules
pub fn raw_parts(m: &BytesMut) -> (usize, usize, usize, usize) {
    (m.ptr.as_ptr() as usize, m.len, m.cap, m.data as usize)
}
