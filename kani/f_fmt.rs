// @parent src/fmt/debug.rs
// C15 (1): the real Debug / LowerHex / UpperHex code, driven through core::fmt::write into an
// array sink, for ALL single bytes and ALL byte pairs (escape adjacency): the output is
//   b"  esc(b0) esc(b1) ...  "      with esc the escape table of the property statement,
// it parses back, with an independent byte-string-literal decoder, to exactly the input, and the
// hex forms are exactly two lower- / upper-case digits per byte.  Arbitrary length: lemma
// lemmas/fmt_compose.rs (decode(concat(esc)) == id), whose `esc` is the same table.
#![allow(unused_imports, unused_variables, unused_mut, dead_code)]
use super::*;
use core::fmt::Write;

pub struct Sink { pub buf: [u8; 16], pub n: usize }
impl Write for Sink {
    fn write_str(&mut self, s: &str) -> Result {
        let b = s.as_bytes();
        let mut i = 0;
        while i < b.len() {
            if self.n >= 16 { return Err(core::fmt::Error); }
            self.buf[self.n] = b[i];
            self.n += 1;
            i += 1;
        }
        Ok(())
    }
}

fn hexval(c: u8) -> Option<u8> {
    if c >= b'0' && c <= b'9' { Some(c - b'0') } else if c >= b'a' && c <= b'f' { Some(c - b'a' + 10) } else if c >= b'A' && c <= b'F' { Some(c - b'A' + 10) } else { None }
}

/// independent decoder of ONE element of a Rust byte-string literal body: (byte, chars consumed).
/// Grammar (Rust reference, byte string literals): any ASCII char except `"`, `\` and CR stands for
/// itself; escapes \n \r \t \\ \0 \" \' \xHH.
fn decode_one(s: &[u8]) -> Option<(u8, usize)> {
    if s.is_empty() { return None; }
    let c = s[0];
    if c == b'\\' {
        if s.len() < 2 { return None; }
        match s[1] {
            b'n' => Some((b'\n', 2)), b'r' => Some((b'\r', 2)), b't' => Some((b'\t', 2)),
            b'\\' => Some((b'\\', 2)), b'0' => Some((0, 2)), b'"' => Some((b'"', 2)), b'\'' => Some((b'\'', 2)),
            b'x' => { if s.len() < 4 { return None; } match (hexval(s[2]), hexval(s[3])) { (Some(h), Some(l)) => Some((h * 16 + l, 4)), _ => None } }
            _ => None,
        }
    } else if c == b'"' || c == b'\r' || c >= 0x80 { None } else { Some((c, 1)) }
}

fn lower_digit(v: u8) -> u8 { if v < 10 { b'0' + v } else { b'a' + (v - 10) } }
fn upper_digit(v: u8) -> u8 { if v < 10 { b'0' + v } else { b'A' + (v - 10) } }

/// the escape table of the property (same table as `esc` in lemmas/fmt_compose.rs): (chars, len)
fn esc(b: u8) -> ([u8; 4], usize) {
    if b == b'\n' { ([b'\\', b'n', 0, 0], 2) }
    else if b == b'\r' { ([b'\\', b'r', 0, 0], 2) }
    else if b == b'\t' { ([b'\\', b't', 0, 0], 2) }
    else if b == b'\\' { ([b'\\', b'\\', 0, 0], 2) }
    else if b == b'"' { ([b'\\', b'"', 0, 0], 2) }
    else if b == 0 { ([b'\\', b'0', 0, 0], 2) }
    else if b >= 0x20 && b < 0x7f { ([b, 0, 0, 0], 1) }
    else { ([b'\\', b'x', lower_digit(b >> 4), lower_digit(b & 15)], 4) }
}

fn render_dbg(arr: &[u8]) -> Sink {
    let mut s = Sink { buf: [0; 16], n: 0 };
    let r = core::fmt::write(&mut s, format_args!("{:?}", BytesRef(arr)));
    assert!(r.is_ok());
    s
}

// @ob props=C15 tier=quick kind=Kstruct bound="sink of 16 chars; all 256 byte values" fns=Debug_for_BytesRef::fmt
#[kani::proof]
#[kani::unwind(18)]
fn kx_dbg_one_byte() {
    let arr: [u8; 1] = kani::any();
    let s = render_dbg(&arr);
    let (e, el) = esc(arr[0]);
    // exactly b" esc(b) "
    assert!(s.n == 3 + el && s.buf[0] == b'b' && s.buf[1] == b'"' && s.buf[s.n - 1] == b'"');
    let k: usize = kani::any();
    if k < el { assert!(s.buf[2 + k] == e[k]); }
    // and it decodes, as a literal, to the input
    let body = &s.buf[2..s.n - 1];
    match decode_one(body) { Some((b0, c0)) => assert!(b0 == arr[0] && c0 == body.len()), None => assert!(false) }
    kani::cover!(el == 4);
    kani::cover!(el == 1);
    kani::cover!(arr[0] == 0x7f);
}

// @ob props=C15 tier=quick kind=Kstruct bound="sink of 16 chars; all 65536 byte pairs" timeout=1800 fns=Debug_for_BytesRef::fmt
#[kani::proof]
#[kani::unwind(18)]
fn kx_dbg_two_bytes() {
    let arr: [u8; 2] = kani::any();
    let s = render_dbg(&arr);
    let (e0, l0) = esc(arr[0]);
    let (e1, l1) = esc(arr[1]);
    // no state carried between bytes: the rendering is the concatenation of the per-byte forms
    assert!(s.n == 3 + l0 + l1 && s.buf[0] == b'b' && s.buf[1] == b'"' && s.buf[s.n - 1] == b'"');
    let k: usize = kani::any();
    if k < l0 { assert!(s.buf[2 + k] == e0[k]); }
    if k < l1 { assert!(s.buf[2 + l0 + k] == e1[k]); }
    // independent decoder: two elements, exactly the input, nothing left over
    let body = &s.buf[2..s.n - 1];
    match decode_one(body) {
        Some((b0, c0)) => {
            assert!(b0 == arr[0]);
            match decode_one(&body[c0..]) { Some((b1, c1)) => assert!(b1 == arr[1] && c0 + c1 == body.len()), None => assert!(false) }
        }
        None => assert!(false),
    }
    kani::cover!(arr[0] == 0 && arr[1] == b'7', "\\0 followed by a digit");
}

// @ob props=C15 tier=quick kind=Kstruct bound="sink of 16 chars" fns=Debug_for_BytesRef::fmt,Debug_for_Bytes::fmt,Debug_for_BytesMut::fmt
#[kani::proof]
#[kani::unwind(18)]
fn kx_dbg_empty_and_wrappers() {
    let s = render_dbg(&[]);
    assert!(s.n == 3 && s.buf[0] == b'b' && s.buf[1] == b'"' && s.buf[2] == b'"');
    // fmt_impl!: Bytes and BytesMut print what BytesRef prints for their contents
    static ONE: [u8; 1] = [0xfe];
    let x: u8 = kani::any();
    let arr = [x];
    let st: &'static [u8; 1] = unsafe { &*(&arr as *const [u8; 1]) };
    let want = render_dbg(&arr);
    let mut got = Sink { buf: [0; 16], n: 0 };
    if kani::any() {
        let b = Bytes::from_static(&st[..]);
        assert!(core::fmt::write(&mut got, format_args!("{:?}", b)).is_ok());
    } else {
        let m = BytesMut::from(&arr[..]);
        assert!(core::fmt::write(&mut got, format_args!("{:?}", m)).is_ok());
        core::mem::forget(m);
    }
    assert!(got.n == want.n);
    let k: usize = kani::any();
    if k < got.n { assert!(got.buf[k] == want.buf[k]); }
}

// @ob props=C15 tier=quick kind=Kstruct bound="sink of 16 chars; all 65536 byte pairs" fns=LowerHex_for_BytesRef::fmt,UpperHex_for_BytesRef::fmt,LowerHex_for_Bytes,UpperHex_for_BytesMut
#[kani::proof]
#[kani::unwind(18)]
fn kx_hex_two_bytes() {
    let arr: [u8; 2] = kani::any();
    let upper: bool = kani::any();
    let mut s = Sink { buf: [0; 16], n: 0 };
    let r = if upper { core::fmt::write(&mut s, format_args!("{:X}", BytesRef(&arr))) } else { core::fmt::write(&mut s, format_args!("{:x}", BytesRef(&arr))) };
    assert!(r.is_ok());
    // exactly two digits per byte, in order, in the requested case
    assert!(s.n == 4);
    let d = |v: u8| if upper { upper_digit(v) } else { lower_digit(v) };
    assert!(s.buf[0] == d(arr[0] >> 4) && s.buf[1] == d(arr[0] & 15) && s.buf[2] == d(arr[1] >> 4) && s.buf[3] == d(arr[1] & 15));
    assert!(hexval(s.buf[0]).unwrap() * 16 + hexval(s.buf[1]).unwrap() == arr[0]);
}

// @ob props=C15 tier=quick kind=Kstruct bound="sink of 16 chars" fns=LowerHex_for_Bytes::fmt,UpperHex_for_Bytes::fmt,LowerHex_for_BytesMut::fmt,UpperHex_for_BytesMut::fmt
#[kani::proof]
#[kani::unwind(18)]
fn kx_hex_wrappers_and_empty() {
    let x: u8 = kani::any();
    let arr = [x];
    let st: &'static [u8; 1] = unsafe { &*(&arr as *const [u8; 1]) };
    let mut s = Sink { buf: [0; 16], n: 0 };
    let which: u8 = kani::any();
    let upper = which & 1 == 1;
    let b = Bytes::from_static(&st[..]);
    let m = BytesMut::from(&arr[..]);
    let r = match which {
        0 => core::fmt::write(&mut s, format_args!("{:x}", b)),
        1 => core::fmt::write(&mut s, format_args!("{:X}", b)),
        2 => core::fmt::write(&mut s, format_args!("{:x}", m)),
        3 => core::fmt::write(&mut s, format_args!("{:X}", m)),
        _ => { let e = Bytes::new(); let r = core::fmt::write(&mut s, format_args!("{:x}{:X}", e, e)); assert!(s.n == 0); r }
    };
    assert!(r.is_ok());
    if which < 4 {
        let d = |v: u8| if upper { upper_digit(v) } else { lower_digit(v) };
        assert!(s.n == 2 && s.buf[0] == d(x >> 4) && s.buf[1] == d(x & 15));
    }
    core::mem::forget(m);
}

// @ob props=C15 tier=quick kind=Kstruct bound="sink of 16 chars; one arbitrary byte; format specs {:4?} {:.0?} / {:.0x} {:6X}" timeout=1800 fns=Debug_for_BytesRef::fmt,Debug_for_Bytes::fmt,LowerHex_for_Bytes::fmt,UpperHex_for_Bytes::fmt
#[kani::proof]
#[kani::unwind(18)]
fn kx_fmt_spec_flags_do_not_change_the_output() {
    // "always a valid literal that decodes to exactly the contents" / "exactly two digits per
    // byte" hold for EVERY format spec: width, precision, fill/alignment, `#` and `0` reach the
    // impls through the Formatter (e.g. a derived Debug forwards them) and must not pad, truncate
    // or otherwise alter the rendering (seeds C15-5, C15-6).
    let x: u8 = kani::any();
    let arr = [x];
    let st: &'static [u8; 1] = unsafe { &*(&arr as *const [u8; 1]) };
    let b = Bytes::from_static(&st[..]);
    let mut s = Sink { buf: [0; 16], n: 0 };
    let which: u8 = kani::any();
    kani::assume(which == 0 || which == 4 || which == 5 || which == 7);
    let r = match which {
        0 => core::fmt::write(&mut s, format_args!("{:4?}", b)),
        4 => core::fmt::write(&mut s, format_args!("{:.0?}", b)),
        5 => core::fmt::write(&mut s, format_args!("{:.0x}", b)),
        _ => core::fmt::write(&mut s, format_args!("{:6X}", b)),
    };
    assert!(r.is_ok());
    if which <= 4 {
        let (e, el) = esc(x);
        assert!(s.n == 3 + el && s.buf[0] == b'b' && s.buf[1] == b'"' && s.buf[s.n - 1] == b'"');
        let k: usize = kani::any();
        if k < el { assert!(s.buf[2 + k] == e[k]); }
    } else {
        let upper = which >= 7;
        let d = |v: u8| if upper { upper_digit(v) } else { lower_digit(v) };
        assert!(s.n == 2 && s.buf[0] == d(x >> 4) && s.buf[1] == d(x & 15));
    }
    kani::cover!(which == 0 && x == b'a');
    kani::cover!(which == 7);
}

// @ob props=C15 tier=thorough kind=Kstruct bound="sink of 16 chars; one arbitrary byte; format specs {:4?} {:.0?} {:<6.1?} {:#?} {:04?} / {:.0x} {:6x} {:#X}" timeout=1800 fns=Debug_for_BytesRef::fmt,Debug_for_Bytes::fmt,LowerHex_for_Bytes::fmt,UpperHex_for_Bytes::fmt
#[kani::proof]
#[kani::unwind(18)]
fn kx_fmt_spec_flags_do_not_change_the_output_all() {
    // "always a valid literal that decodes to exactly the contents" / "exactly two digits per
    // byte" hold for EVERY format spec: width, precision, fill/alignment, `#` and `0` reach the
    // impls through the Formatter (e.g. a derived Debug forwards them) and must not pad, truncate
    // or otherwise alter the rendering (seeds C15-5, C15-6).
    let x: u8 = kani::any();
    let arr = [x];
    let st: &'static [u8; 1] = unsafe { &*(&arr as *const [u8; 1]) };
    let b = Bytes::from_static(&st[..]);
    let mut s = Sink { buf: [0; 16], n: 0 };
    let which: u8 = kani::any();
    let r = match which {
        0 => core::fmt::write(&mut s, format_args!("{:4?}", b)),
        1 => core::fmt::write(&mut s, format_args!("{:.0?}", b)),
        2 => core::fmt::write(&mut s, format_args!("{:<6.1?}", b)),
        3 => core::fmt::write(&mut s, format_args!("{:#?}", b)),
        4 => core::fmt::write(&mut s, format_args!("{:04?}", b)),
        5 => core::fmt::write(&mut s, format_args!("{:.0x}", b)),
        6 => core::fmt::write(&mut s, format_args!("{:6x}", b)),
        _ => core::fmt::write(&mut s, format_args!("{:#X}", b)),
    };
    assert!(r.is_ok());
    if which <= 4 {
        let (e, el) = esc(x);
        assert!(s.n == 3 + el && s.buf[0] == b'b' && s.buf[1] == b'"' && s.buf[s.n - 1] == b'"');
        let k: usize = kani::any();
        if k < el { assert!(s.buf[2 + k] == e[k]); }
    } else {
        let upper = which >= 7;
        let d = |v: u8| if upper { upper_digit(v) } else { lower_digit(v) };
        assert!(s.n == 2 && s.buf[0] == d(x >> 4) && s.buf[1] == d(x & 15));
    }
    kani::cover!(which == 2 && x == b'a');
    kani::cover!(which == 7);
}

// @ob props=C15 tier=quick kind=Kstruct bound="sink of 16 chars; the concrete contents b\"a\\n\"; format specs {:4?} {:.0?}" timeout=900 fns=Debug_for_BytesRef::fmt
#[kani::proof]
#[kani::unwind(18)]
fn kx_fmt_spec_flags_concrete_contents() {
    // decidable twin of the obligation above: with CONCRETE contents CBMC constant-folds std's
    // padding machinery, so a change that lets width / precision reach a per-byte `Display` call
    // (seed C15-5: the symbolic-byte obligation times out on it) is refuted instead of undecided
    let arr = [b'a', b'\n'];
    let mut s = Sink { buf: [0; 16], n: 0 };
    let r = if kani::any() { core::fmt::write(&mut s, format_args!("{:4?}", BytesRef(&arr))) } else { core::fmt::write(&mut s, format_args!("{:.0?}", BytesRef(&arr))) };
    assert!(r.is_ok());
    assert!(s.n == 6 && s.buf[0] == b'b' && s.buf[1] == b'"' && s.buf[2] == b'a' && s.buf[3] == b'\\' && s.buf[4] == b'n' && s.buf[5] == b'"');
}
