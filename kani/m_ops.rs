// @parent src/bytes_mut.rs
// Contracts of the BytesMut view/bookkeeping operations (no copying, no allocation of byte
// buffers): split_off, split_to, split, advance, truncate, clear, set_len, try_unsplit, freeze
// (KIND_ARC), Drop, shallow_clone, promote_to_shared, and the bytes_mut::SHARED_VTABLE entries.
#![allow(unused_imports, unused_variables, unused_mut)]
use super::verif_m_wf::*;
use super::*;

// @ob props=C01,C02,C03,C04,C07,C18 tier=quick kind=Kinf fns=BytesMut::split_off,BytesMut::shallow_clone,BytesMut::promote_to_shared,BytesMut::advance_unchecked,rebuild_vec
#[kani::proof]
fn kx_mvec_split_off() {
    let (mut b, g) = any_mvec();
    let (i, x) = plant_m(&b);
    let at: usize = kani::any();
    kani::assume(at <= g.cap);
    let o = b.split_off(at);
    let p = g.base as usize + g.off;
    // promotion: both handles on one new block with count 2 that owns the whole allocation
    assert!(b.kind() == KIND_ARC && o.kind() == KIND_ARC && b.data == o.data);
    let sh = unsafe { &*b.data };
    assert!(sh.ref_count.load(Ordering::Relaxed) == 2);
    assert!(sh.vec.as_ptr() as usize == g.base as usize && sh.vec.capacity() == g.vcap);
    assert!(sh.original_capacity_repr == g.repr);
    // the two regions are [p, p+at) and [p+at, p+cap): disjoint, union = the old region
    let lo_len = if g.len < at { g.len } else { at };
    assert!(b.ptr.as_ptr() as usize == p && b.cap == at && b.len == lo_len);
    assert!(o.ptr.as_ptr() as usize == p + at && o.cap == g.cap - at);
    assert!(o.len == if g.len > at { g.len - at } else { 0 });
    if g.len > 0 {
        if i < at { assert!(b[i] == x); } else { assert!(o[i - at] == x); }
        assert!(kani::mem::same_allocation(b.ptr.as_ptr() as *const u8, g.base as *const u8));
    }
    kani::cover!(at > 0 && at < g.cap && g.len > at);
    kani::cover!(at == 0);
    kani::cover!(at == g.cap);
    // both drops: block and allocation released exactly once (double free / bad layout would fail)
    drop(b);
    drop(o);
}

// @ob props=C01,C02,C03,C04,C07,C18 tier=quick kind=Kinf fns=BytesMut::split_off,BytesMut::shallow_clone,increment_shared,BytesMut::advance_unchecked
#[kani::proof]
fn kx_marc_split_off() {
    let (mut b, g) = any_marc();
    let (i, x) = plant_m(&b);
    let at: usize = kani::any();
    kani::assume(at <= g.cap);
    let o = b.split_off(at);
    let p = g.base as usize + g.off;
    assert!(count(&g) == g.k + 1 && block_intact(&g));
    let lo_len = if g.len < at { g.len } else { at };
    assert!(wf_marc(&b, &g, p, lo_len, at));
    assert!(wf_marc(&o, &g, p + at, if g.len > at { g.len - at } else { 0 }, g.cap - at));
    if g.len > 0 {
        if i < at { assert!(b[i] == x); } else { assert!(o[i - at] == x); }
    }
    kani::cover!(at > 0 && at < g.cap && g.len > at);
    core::mem::forget(b);
    core::mem::forget(o);
}

// @ob props=C01,C02,C03,C04,C07,C18 tier=quick kind=Kinf fns=BytesMut::split_to,BytesMut::split,BytesMut::shallow_clone,BytesMut::promote_to_shared,BytesMut::advance_unchecked
#[kani::proof]
fn kx_mvec_split_to() {
    let (mut b, g) = any_mvec();
    let (i, x) = plant_m(&b);
    let at: usize = kani::any();
    let use_split: bool = kani::any();
    if use_split { kani::assume(at == g.len); } else { kani::assume(at <= g.len); }
    let o = if use_split { b.split() } else { b.split_to(at) };
    let p = g.base as usize + g.off;
    assert!(b.kind() == KIND_ARC && o.kind() == KIND_ARC && b.data == o.data);
    let sh = unsafe { &*b.data };
    assert!(sh.ref_count.load(Ordering::Relaxed) == 2);
    assert!(sh.vec.as_ptr() as usize == g.base as usize && sh.vec.capacity() == g.vcap && sh.original_capacity_repr == g.repr);
    assert!(o.ptr.as_ptr() as usize == p && o.len == at && o.cap == at);
    assert!(b.ptr.as_ptr() as usize == p + at && b.len == g.len - at && b.cap == g.cap - at);
    if g.len > 0 {
        if i < at { assert!(o[i] == x); } else { assert!(b[i - at] == x); }
    }
    kani::cover!(at > 0 && at < g.len);
    kani::cover!(use_split && g.len > 0);
    drop(o);
    drop(b);
}

// @ob props=C01,C02,C03,C04,C07,C18 tier=quick kind=Kinf fns=BytesMut::split_to,BytesMut::split,increment_shared,BytesMut::advance_unchecked
#[kani::proof]
fn kx_marc_split_to() {
    let (mut b, g) = any_marc();
    let (i, x) = plant_m(&b);
    let at: usize = kani::any();
    kani::assume(at <= g.len);
    let o = b.split_to(at);
    let p = g.base as usize + g.off;
    assert!(count(&g) == g.k + 1 && block_intact(&g));
    assert!(wf_marc(&o, &g, p, at, at));
    assert!(wf_marc(&b, &g, p + at, g.len - at, g.cap - at));
    if g.len > 0 {
        if i < at { assert!(o[i] == x); } else { assert!(b[i - at] == x); }
    }
    kani::cover!(at > 0 && at < g.len);
    core::mem::forget(b);
    core::mem::forget(o);
}

// @ob props=C01,C02,C04,C07,C09,C18 tier=quick kind=Kinf fns=BytesMut::advance,BytesMut::advance_unchecked,BytesMut::set_vec_pos,BytesMut::get_vec_pos
#[kani::proof]
fn kx_mvec_advance() {
    let (mut b, g) = any_mvec();
    let (i, x) = plant_m(&b);
    let n: usize = kani::any();
    kani::assume(n <= g.len);
    Buf::advance(&mut b, n);
    // still the inline-Vec form over the same allocation, front offset grown by n, capacity shrunk
    assert!(wf_mvec(&b, g.base as usize, g.vcap, g.off + n, g.len - n, g.repr));
    if g.len > 0 && i >= n { assert!(b[i - n] == x); }
    assert!(Buf::remaining(&b) == g.len - n && Buf::chunk(&b).len() == g.len - n);
    kani::cover!(n > 0 && n < g.len && g.off > 0);
    drop(b);
}

// @ob props=C01,C02,C04,C07,C09,C18 tier=quick kind=Kinf fns=BytesMut::advance,BytesMut::advance_unchecked
#[kani::proof]
fn kx_marc_advance() {
    let (mut b, g) = any_marc();
    let (i, x) = plant_m(&b);
    let n: usize = kani::any();
    kani::assume(n <= g.len);
    Buf::advance(&mut b, n);
    assert!(wf_marc(&b, &g, g.base as usize + g.off + n, g.len - n, g.cap - n));
    assert!(count(&g) == g.k && block_intact(&g));
    if g.len > 0 && i >= n { assert!(b[i - n] == x); }
    kani::cover!(n > 0 && n < g.len);
    core::mem::forget(b);
}

// @ob props=C01,C02,C04,C07,C13 tier=quick kind=Kinf fns=BytesMut::truncate,BytesMut::clear,BytesMut::set_len
#[kani::proof]
fn kx_m_truncate_clear() {
    let arc: bool = kani::any();
    let (mut b, g) = if arc { any_marc() } else { any_mvec() };
    let (i, x) = plant_m(&b);
    let n: usize = kani::any(); // unconstrained: beyond len is the documented no-op
    let clear: bool = kani::any();
    if clear { kani::assume(n == 0); b.clear(); } else { b.truncate(n); }
    let nl = if n <= g.len { n } else { g.len };
    assert!(b.ptr.as_ptr() as usize == g.base as usize + g.off && b.cap == g.cap && b.len == nl);
    if arc {
        assert!(wf_marc(&b, &g, g.base as usize + g.off, nl, g.cap) && count(&g) == g.k && block_intact(&g));
    } else {
        assert!(wf_mvec(&b, g.base as usize, g.vcap, g.off, nl, g.repr));
    }
    if i < nl { assert!(b[i] == x); }
    kani::cover!(n < g.len);
    kani::cover!(n > g.len);
    core::mem::forget(b);
}

// @ob props=C01,C03,C04,C07 tier=quick kind=Kinf fns=BytesMut::try_unsplit,BytesMut::unsplit
#[kani::proof]
fn kx_marc_unsplit_adjacent() {
    // two handles on one block; `o` starts exactly where `b`'s data ends
    let (base, vcap) = alloc_sym();
    let k = any_count();
    kani::assume(k >= 2);
    let (shared, repr) = shared_on(base, vcap, k);
    let off: usize = kani::any();
    let l1: usize = kani::any();
    let c2: usize = kani::any();
    let l2: usize = kani::any();
    kani::assume(l1 >= 1 && off <= vcap && l1 <= vcap - off && c2 >= 1 && c2 <= vcap - off - l1 && l2 <= c2);
    // disjoint regions => the first handle's capacity ends where its data ends
    let mut b = BytesMut { ptr: vptr(unsafe { base.add(off) }), len: l1, cap: l1, data: shared };
    let o = BytesMut { ptr: vptr(unsafe { base.add(off + l1) }), len: l2, cap: c2, data: shared };
    let g = MGhost { base, vcap, off, len: l1, cap: l1, repr, shared, k };
    b.unsplit(o);
    // merged by bookkeeping only: same address, lengths and capacities added, one reference given up
    assert!(wf_marc(&b, &g, base as usize + off, l1 + l2, l1 + c2));
    assert!(count(&g) == k - 1 && block_intact(&g));
    core::mem::forget(b);
}

// @ob props=C01,C03,C04 tier=quick kind=Kinf fns=BytesMut::try_unsplit
#[kani::proof]
fn kx_m_try_unsplit_decision() {
    // try_unsplit merges ONLY adjacent handles on the same block; everything else is handed back
    let (base, vcap) = alloc_sym();
    let (shared, repr) = shared_on(base, vcap, 2);
    let (o1, c1, l1) = (kani::any::<usize>(), kani::any::<usize>(), kani::any::<usize>());
    let (o2, c2, l2) = (kani::any::<usize>(), kani::any::<usize>(), kani::any::<usize>());
    kani::assume(o1 <= vcap && c1 <= vcap - o1 && l1 <= c1 && o2 <= vcap && c2 <= vcap - o2 && l2 <= c2);
    // regions disjoint (cross-handle invariant, lemma L-excl)
    kani::assume(o1 + c1 <= o2 || o2 + c2 <= o1);
    let mut b = BytesMut { ptr: vptr(unsafe { base.add(o1) }), len: l1, cap: c1, data: shared };
    let o = BytesMut { ptr: vptr(unsafe { base.add(o2) }), len: l2, cap: c2, data: shared };
    let r = b.try_unsplit(o);
    match r {
        Ok(()) => {
            if c2 == 0 {
                assert!(b.len == l1 && b.cap == c1);
                // the empty-capacity handle was dropped: one reference released
                assert!(unsafe { (*shared).ref_count.load(Ordering::Relaxed) } == 1);
            } else {
                assert!(o1 + l1 == o2);
                // data contiguous and regions disjoint => no gap of spare capacity in between
                assert!(c1 == l1);
                assert!(b.len == l1 + l2 && b.cap == c1 + c2 && b.ptr.as_ptr() as usize == base as usize + o1);
            }
        }
        Err(o) => {
            assert!(c2 != 0 && o1 + l1 != o2);
            assert!(b.len == l1 && b.cap == c1 && o.len == l2 && o.cap == c2);
            core::mem::forget(o);
        }
    }
    kani::cover!(c2 > 0 && o1 + l1 == o2);
    core::mem::forget(b);
}

/// the `data` word of an inline-Vec handle: any front offset (as in `mvec_on`) and any capacity repr
fn any_vec_tag() -> usize {
    let off: usize = kani::any();
    kani::assume(off <= MAXCAP);
    (off << VEC_POS_OFFSET) | (any_repr() << ORIGINAL_CAPACITY_OFFSET) | KIND_VEC
}

// @ob props=C01,C03,C04 tier=quick kind=Kinf fns=BytesMut::try_unsplit
#[kani::proof]
fn kx_m_try_unsplit_never_merges_distinct_buffers() {
    // Two handles that are NOT both on one shared block are never merged, wherever their buffers
    // lie - in particular when two separate buffers happen to be adjacent in memory and their
    // `data` words are equal (inline-Vec handles: `data` is a tag, not an identity; seed C04-5).
    // Adjacent allocations are modelled as two halves of one object (CBMC never places distinct
    // objects next to each other); nothing is freed here, every handle is forgotten.
    let (base, vcap) = alloc_sym();
    let (o1, c1, l1) = (kani::any::<usize>(), kani::any::<usize>(), kani::any::<usize>());
    let (o2, c2, l2) = (kani::any::<usize>(), kani::any::<usize>(), kani::any::<usize>());
    kani::assume(o1 <= vcap && c1 <= vcap - o1 && l1 <= c1 && o2 <= vcap && c2 <= vcap - o2 && l2 <= c2);
    kani::assume(o1 + c1 <= o2 || o2 + c2 <= o1);
    kani::assume(c2 > 0);
    let which: u8 = kani::any();
    let (d1, d2): (*mut Shared, *mut Shared) = if which == 0 {
        // both inline-Vec: any tags (equal or not)
        (invalid_ptr(any_vec_tag()), invalid_ptr(any_vec_tag()))
    } else if which == 1 {
        // one shared, one inline-Vec
        let (sh, _) = shared_on(base, vcap, 1);
        let t = any_vec_tag();
        if kani::any() { (sh, invalid_ptr(t)) } else { (invalid_ptr(t), sh) }
    } else {
        // two different shared blocks
        let (sh1, _) = shared_on(base, vcap, 1);
        let sh2 = Box::into_raw(Box::new(Shared { vec: Vec::new(), original_capacity_repr: 0, ref_count: AtomicUsize::new(1) }));
        (sh1, sh2)
    };
    let mut b = BytesMut { ptr: vptr(unsafe { base.add(o1) }), len: l1, cap: c1, data: d1 };
    let o = BytesMut { ptr: vptr(unsafe { base.add(o2) }), len: l2, cap: c2, data: d2 };
    let r = b.try_unsplit(o);
    match r {
        Ok(()) => { assert!(false, "handles of different buffers were merged"); }
        Err(o) => {
            assert!(b.len == l1 && b.cap == c1 && b.data == d1 && o.len == l2 && o.cap == c2 && o.data == d2);
            core::mem::forget(o);
        }
    }
    kani::cover!(which == 0 && o1 + l1 == o2 && d1 == d2, "adjacent inline-Vec buffers with equal tags");
    core::mem::forget(b);
}

// @ob props=C01,C03,C07 tier=quick kind=Kinf fns=BytesMut::freeze
#[kani::proof]
fn kx_marc_freeze() {
    let (b, g) = any_marc();
    let (i, x) = plant_m(&b);
    let f = b.freeze();
    // re-labelled: same address, same block, count unchanged
    assert!(f.as_ptr() as usize == g.base as usize + g.off && f.len() == g.len);
    assert!(count(&g) == g.k && block_intact(&g));
    if g.len > 0 { assert!(f[i] == x); }
    // it carries the bytes_mut vtable: its uniqueness test reads THIS block's count
    assert!(f.is_unique() == (g.k == 1));
    core::mem::forget(f);
}

// @ob props=C01,C03,C07 tier=quick kind=Kinf fns=BytesMut::freeze,shared_v_clone
#[kani::proof]
fn kx_marc_freeze_then_clone() {
    let (base, vcap) = alloc_sym();
    let (b, g) = marc_on(base, vcap, 1);
    let f = b.freeze();
    let c = f.clone(); // through the vtable it carries: increments this block
    assert!(count(&g) == 2 && c.as_ptr() as usize == f.as_ptr() as usize && c.len() == f.len());
    core::mem::forget(c);
    core::mem::forget(f);
}

// @ob props=C03,C02,C01,C18 tier=quick kind=Kinf leak=1 fns=BytesMut::drop,release_shared,rebuild_vec
#[kani::proof]
fn kx_m_drop_last() {
    // last handle in either form: everything built here must be gone afterwards
    // (CBMC --memory-leak-check: a leak fails "dynamically allocated memory never freed";
    //  a double free or a wrong layout fails Kani's allocator checks)
    let arc: bool = kani::any();
    let (b, g) = if arc { any_marc_unique() } else { any_mvec() };
    drop(b);
}

// @ob props=C03,C02,C01,C18 tier=quick kind=Kinf fns=BytesMut::drop,release_shared
#[kani::proof]
fn kx_marc_drop_not_last() {
    let (b, g) = any_marc();
    kani::assume(g.k >= 2);
    let (j, y) = plant_outside(&g);
    drop(b);
    assert!(count(&g) == g.k - 1 && block_intact(&g));
    assert!(unsafe { *g.base.add(j) } == y);
}

// ---- bytes_mut::SHARED_VTABLE (frozen views) -------------------------------------------------

// @ob props=C01,C03,C07,C08 tier=quick kind=Kinf fns=shared_v_clone,shared_v_is_unique,increment_shared
#[kani::proof]
fn kx_sharedv_clone_is_unique() {
    let (b, g) = any_sharedv();
    let (i, x) = (kani::any::<usize>(), kani::any::<u8>());
    assert!(b.is_unique() == (g.k == 1));
    let c = b.clone();
    assert!(count(&g) == g.k + 1 && block_intact(&g));
    assert!(c.as_ptr() as usize == b.as_ptr() as usize && c.len() == g.len);
    assert!(!c.is_unique());
    kani::cover!(g.k == 1);
    core::mem::forget(b);
    core::mem::forget(c);
}

// @ob props=C03,C02 tier=quick kind=Kinf leak=1 fns=shared_v_drop,release_shared
#[kani::proof]
fn kx_sharedv_drop_last() {
    let (base, vcap) = alloc_sym();
    let (b, g) = sharedv_on(base, vcap, 1);
    drop(b);
}

// @ob props=C03,C02 tier=quick kind=Kinf fns=shared_v_drop,release_shared
#[kani::proof]
fn kx_sharedv_drop_not_last() {
    let (b, g) = any_sharedv();
    kani::assume(g.k >= 2);
    drop(b);
    assert!(count(&g) == g.k - 1 && block_intact(&g));
}

// @ob props=C08,C07,C04,C01,C03 tier=quick kind=Kinf fns=shared_v_to_mut,Bytes::try_into_mut
#[kani::proof]
fn kx_sharedv_try_into_mut_unique() {
    let (base, vcap) = alloc_sym();
    let (b, g) = sharedv_on(base, vcap, 1);
    let i: usize = kani::any();
    let x: u8 = kani::any();
    if g.len > 0 { kani::assume(i < g.len); unsafe { *(b.as_ptr() as *mut u8).add(i) = x }; }
    match b.try_into_mut() {
        Ok(m) => {
            // the block is reused: same address, capacity = rest of the allocation
            assert!(wf_marc(&m, &g, g.base as usize + g.off, g.len, g.vcap - g.off));
            assert!(count(&g) == 1 && block_intact(&g));
            if g.len > 0 { assert!(m[i] == x); }
            core::mem::forget(m);
        }
        Err(e) => { core::mem::forget(e); assert!(false); }
    }
}

// @ob props=C08,C01,C03 tier=quick kind=Kinf fns=shared_v_is_unique,Bytes::try_into_mut
#[kani::proof]
fn kx_sharedv_try_into_mut_shared() {
    let (base, vcap) = alloc_sym();
    let (b, g) = sharedv_on(base, vcap, 2); // literal 2: see kx_arc_try_into_mut_shared
    match b.try_into_mut() {
        Ok(m) => { core::mem::forget(m); assert!(false); }
        Err(b2) => {
            assert!(b2.as_ptr() as usize == g.base as usize + g.off && b2.len() == g.len && count(&g) == 2);
            core::mem::forget(b2);
        }
    }
}

// ---- BufMut bookkeeping of BytesMut ----------------------------------------------------------

// @ob props=C11,C04,C02 tier=quick kind=Kinf fns=BytesMut::advance_mut,BytesMut::remaining_mut,BytesMut::spare_capacity_mut
#[kani::proof]
fn kx_m_advance_mut() {
    let arc: bool = kani::any();
    let (mut b, g) = if arc { any_marc() } else { any_mvec() };
    let n: usize = kani::any();
    kani::assume(n <= g.cap - g.len);
    assert!(b.remaining_mut() == usize::MAX - g.len);
    let sp = b.spare_capacity_mut();
    assert!(sp.len() == g.cap - g.len && sp.as_ptr() as usize == g.base as usize + g.off + g.len);
    unsafe { b.advance_mut(n) };
    assert!(b.len == g.len + n && b.cap == g.cap && b.ptr.as_ptr() as usize == g.base as usize + g.off);
    kani::cover!(n > 0);
    core::mem::forget(b);
}

// @ob props=C01,C14,C09,C11 tier=quick kind=Kinf fns=BytesMut::as_slice,Deref_for_BytesMut::deref,AsRef<[u8]>_for_BytesMut::as_ref,Borrow<[u8]>_for_BytesMut::borrow,BytesMut::len,BytesMut::capacity,BytesMut::is_empty,Buf_for_BytesMut::chunk,Buf_for_BytesMut::remaining
#[kani::proof]
fn kx_bytes_mut_as_slice_is_the_view() {
    // the contract every Verus unit imports for BytesMut: all slice accessors return exactly (ptr, len)
    let arc: bool = kani::any();
    let (b, g) = if arc { any_marc() } else { any_mvec() };
    let p = g.base as usize + g.off;
    let s = b.as_slice();
    assert!(s.as_ptr() as usize == p && s.len() == g.len);
    let d: &[u8] = &b;
    let a: &[u8] = b.as_ref();
    let w: &[u8] = core::borrow::Borrow::borrow(&b);
    let c: &[u8] = Buf::chunk(&b);
    assert!(d.as_ptr() as usize == p && d.len() == g.len && a.as_ptr() as usize == p && a.len() == g.len);
    assert!(w.as_ptr() as usize == p && w.len() == g.len && c.as_ptr() as usize == p && c.len() == g.len);
    assert!(b.len() == g.len && b.capacity() == g.cap && b.is_empty() == (g.len == 0) && Buf::remaining(&b) == g.len);
    core::mem::forget(b);
}

// @ob props=C01,C03,C07 tier=quick kind=Kinf fns=BytesMut::freeze,rebuild_vec,From<Vec<u8>>for_Bytes,Bytes::advance
#[kani::proof]
fn kx_mvec_freeze_spare_capacity_sym() {
    // inline-Vec form with spare capacity (len < cap), SYMBOLIC allocation size: freeze re-labels the
    // allocation as a shared Bytes (control block {base, vcap, 1}) advanced by the front offset - no copy
    let (mut b, g) = any_mvec();
    kani::assume(g.len < g.cap);
    let (i, x) = plant_m(&b);
    let f = b.freeze();
    assert!(f.as_ptr() as usize == g.base as usize + g.off && f.len() == g.len);
    if g.len > 0 { assert!(f[i] == x && kani::mem::same_allocation(f.as_ptr(), g.base as *const u8)); }
    assert!(f.is_unique());
    kani::cover!(g.off > 0 && g.len > 0);
    core::mem::forget(f);
}

// @ob props=C01,C03,C04 tier=quick kind=Kinf fns=BytesMut::unsplit
#[kani::proof]
fn kx_m_unsplit_into_empty_self() {
    // self is empty: it simply BECOMES other (no copy); the old self is dropped, giving up its reference
    let (base, vcap) = alloc_sym();
    let k = any_count();
    kani::assume(k >= 2);
    let (shared, repr) = shared_on(base, vcap, k);
    let (o1, c1) = (kani::any::<usize>(), kani::any::<usize>());
    let (o2, c2, l2) = (kani::any::<usize>(), kani::any::<usize>(), kani::any::<usize>());
    kani::assume(o1 <= vcap && c1 <= vcap - o1 && o2 <= vcap && c2 <= vcap - o2 && l2 <= c2);
    kani::assume(o1 + c1 <= o2 || o2 + c2 <= o1);
    let mut b = BytesMut { ptr: vptr(unsafe { base.add(o1) }), len: 0, cap: c1, data: shared };
    let o = BytesMut { ptr: vptr(unsafe { base.add(o2) }), len: l2, cap: c2, data: shared };
    let g = MGhost { base, vcap, off: o2, len: l2, cap: c2, repr, shared, k };
    b.unsplit(o);
    assert!(wf_marc(&b, &g, base as usize + o2, l2, c2));
    assert!(count(&g) == k - 1 && block_intact(&g));
    core::mem::forget(b);
}

// @ob props=C09,C01,C07,C03,C18 tier=quick kind=Kinf fns=Buf_for_BytesMut::copy_to_bytes,BytesMut::split_to,BytesMut::freeze
#[kani::proof]
fn kx_bytes_mut_copy_to_bytes_is_split_to_freeze() {
    let (mut b, g) = any_marc();
    let (i, x) = plant_m(&b);
    let n: usize = kani::any();
    kani::assume(n <= g.len);
    let p = g.base as usize + g.off;
    let r = Buf::copy_to_bytes(&mut b, n);
    // exactly the next n bytes, zero-copy; self advanced by n; one more reference on the block
    assert!(r.len() == n && r.as_ptr() as usize == p && count(&g) == g.k + 1 && block_intact(&g));
    assert!(wf_marc(&b, &g, p + n, g.len - n, g.cap - n));
    if g.len > 0 { if i < n { assert!(r[i] == x); } else { assert!(b[i - n] == x); } }
    kani::cover!(n > 0 && n < g.len);
    core::mem::forget(r);
    core::mem::forget(b);
}

// @ob props=C01,C03,C07,C13 tier=quick kind=Kinf fns=Bytes::truncate,Bytes::clear,Bytes::advance,Bytes::slice,Bytes::split_off,shared_v_clone
#[kani::proof]
#[kani::stub(crate::bytes::without_provenance, crate::bytes::verif_b_wf::without_provenance_contract)]
fn kx_sharedv_views() {
    // view operations on a frozen BytesMut (bytes_mut::SHARED_VTABLE): same contracts as the other
    // shared representation - truncate just shortens (no promotion needed: the block stores the Vec)
    let (mut b, g) = any_sharedv();
    let p = g.base as usize + g.off;
    let a: usize = kani::any();
    let op: u8 = kani::any();
    if op == 0 {
        b.truncate(a);
        let nl = if a < g.len { a } else { g.len };
        assert!(b.as_ptr() as usize == p && b.len() == nl && count(&g) == g.k && block_intact(&g));
    } else if op == 1 {
        kani::assume(a <= g.len);
        Buf::advance(&mut b, a);
        assert!(b.as_ptr() as usize == p + a && b.len() == g.len - a && count(&g) == g.k);
    } else if op == 2 {
        let z: usize = kani::any();
        kani::assume(a < z && z <= g.len);
        let s = b.slice(a..z);
        assert!(s.as_ptr() as usize == p + a && s.len() == z - a && count(&g) == g.k + 1 && block_intact(&g));
        core::mem::forget(s);
    } else {
        kani::assume(a > 0 && a < g.len);
        let r = b.split_off(a);
        assert!(b.as_ptr() as usize == p && b.len() == a && r.as_ptr() as usize == p + a && r.len() == g.len - a && count(&g) == g.k + 1);
        core::mem::forget(r);
    }
    core::mem::forget(b);
}
