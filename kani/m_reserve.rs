// @parent src/bytes_mut.rs
// Contracts of BytesMut::reserve / reserve_inner / try_reclaim (C04, C08, C13, C16, C18).
//   try_reclaim(n) / reserve_inner(n, false): never allocates, never panics;
//       true  => cap' - len' >= n, len' == len, contents unchanged, same allocation
//       false => (ptr, len, cap, data) unchanged
//   reserve(n): returns => cap' - len' >= n, len' == len, contents unchanged
//               unrepresentable size => panics (documented), never returns with less
// Paths that copy or reallocate use an 8-byte allocation (bounded stand-in "K8"): offset, length,
// refcount and the requested size stay symbolic over their full range.
#![allow(unused_imports, unused_variables, unused_mut)]
use super::verif_m_wf::*;
use super::*;

fn same_handle(b: &BytesMut, g: &MGhost, data0: *mut Shared) -> bool {
    b.ptr.as_ptr() as usize == g.base as usize + g.off && b.len == g.len && b.cap == g.cap && b.data == data0
}

// @ob props=C04,C08,C13,C16,C02,C18 tier=quick kind=Kbounded bound="allocation size 8; offset/len/additional fully symbolic (usize)" fns=BytesMut::try_reclaim,BytesMut::reserve_inner
#[kani::proof]
fn kx_mvec_try_reclaim() {
    let (base, vcap) = alloc_fixed(8);
    let (mut b, g) = mvec_on(base, vcap);
    let (i, x) = plant_m(&b);
    let data0 = b.data;
    let n: usize = kani::any(); // every usize, including usize::MAX and isize::MAX +- k
    let r = b.try_reclaim(n);
    if r {
        assert!(b.cap - b.len >= n && b.len == g.len);
        if g.len > 0 { assert!(b[i] == x); }
        // no allocation: still the same object, still the inline-Vec form describing all of it
        let off2 = (b.data as usize) >> VEC_POS_OFFSET;
        assert!(wf_mvec(&b, g.base as usize, g.vcap, off2, g.len, g.repr));
        assert!(off2 == g.off || off2 == 0);
    } else {
        assert!(same_handle(&b, &g, data0));
        if g.len > 0 { assert!(b[i] == x); }
    }
    // sole empty owner can always take the whole allocation back (C08 / C18 "in particular")
    if g.len == 0 && n <= g.vcap { assert!(r); }
    // the decision lemmas/recycle.rs reads (`reserve_step`): room behind the view, or the whole
    // allocation is large enough and the bytes can be moved to the front without overlap => the
    // buffer MUST be reclaimed.  (Only this direction: reclaiming in more cases would not break
    // any property, so it is not demanded.)
    if n <= g.cap - g.len || (g.cap - g.len + g.off >= n && g.off >= g.len) { assert!(r); }
    kani::cover!(r && g.off > 0 && n > g.cap - g.len, "reclaimed by moving to the front");
    kani::cover!(!r);
    drop(b);
}

// @ob props=C04,C08,C13,C16,C02,C18 tier=quick kind=Kbounded bound="allocation size 8; offset/len/cap/additional fully symbolic (usize)" fns=BytesMut::try_reclaim,BytesMut::reserve_inner,Shared::is_unique
#[kani::proof]
fn kx_marc_unique_try_reclaim() {
    let (base, vcap) = alloc_fixed(8);
    let (mut b, g) = marc_on(base, vcap, 1);
    let (i, x) = plant_m(&b);
    let data0 = b.data;
    let n: usize = kani::any();
    let r = b.try_reclaim(n);
    if r {
        assert!(b.cap - b.len >= n && b.len == g.len);
        if g.len > 0 { assert!(b[i] == x); }
        // same block, same allocation, region still inside it
        let p2 = b.ptr.as_ptr() as usize;
        assert!(wf_marc(&b, &g, p2, g.len, b.cap) && block_intact(&g) && count(&g) == 1);
        assert!(p2 == g.base as usize + g.off || p2 == g.base as usize);
    } else {
        assert!(same_handle(&b, &g, data0) && block_intact(&g) && count(&g) == 1);
    }
    if g.len == 0 && n <= g.vcap { assert!(r); }
    // the decision lemmas/recycle.rs reads (`reserve_step`), in the direction the lemma needs:
    // under these conditions the buffer MUST be reclaimed (more reclaiming is not a violation)
    let want = g.len.checked_add(n);
    let expect = n <= g.cap - g.len
        || match want { Some(nc) => g.vcap - g.off >= nc || (g.vcap >= nc && g.off >= g.len), None => false };
    if expect { assert!(r); }
    kani::cover!(r && g.off == g.len && g.len > 0 && b.ptr.as_ptr() as usize == g.base as usize, "offset == len reclaims by moving");
    kani::cover!(r && n > g.cap - g.len && b.ptr.as_ptr() as usize == g.base as usize && g.off > 0, "reclaimed by moving to the front");
    kani::cover!(r && n > g.cap - g.len && b.ptr.as_ptr() as usize != g.base as usize, "reclaimed in place");
    kani::cover!(!r);
    core::mem::forget(b);
}

// @ob props=C04,C08,C13,C02 tier=quick kind=Kinf fns=BytesMut::try_reclaim,BytesMut::reserve_inner,Shared::is_unique
#[kani::proof]
fn kx_marc_shared_try_reclaim() {
    // another handle exists: nothing may be reclaimed, nothing may change (symbolic allocation size)
    let (mut b, g) = any_marc();
    kani::assume(g.k >= 2);
    let data0 = b.data;
    let n: usize = kani::any();
    let r = b.try_reclaim(n);
    assert!(r == (n <= g.cap - g.len));
    assert!(same_handle(&b, &g, data0) && block_intact(&g) && count(&g) == g.k);
    kani::cover!(!r);
    core::mem::forget(b);
}

// @ob props=C04,C01,C02,C16,C18 tier=quick kind=Kbounded bound="allocation size 8; additional <= 24" fns=BytesMut::reserve,BytesMut::reserve_inner,rebuild_vec
#[kani::proof]
fn kx_mvec_reserve() {
    let (base, vcap) = alloc_fixed(8);
    let (mut b, g) = mvec_on(base, vcap);
    let (i, x) = plant_m(&b);
    let n: usize = kani::any();
    kani::assume(n <= 24);
    b.reserve(n);
    assert!(b.cap - b.len >= n && b.len == g.len);
    if g.len > 0 { assert!(b[i] == x); }
    assert!(b.kind() == KIND_VEC);
    // no allocation when the request fits behind the view or after moving to the front (C18)
    if n <= g.cap - g.len || (g.cap - g.len + g.off >= n && g.off >= g.len) {
        let off2 = (b.data as usize) >> VEC_POS_OFFSET;
        assert!(b.ptr.as_ptr() as usize - off2 == g.base as usize);
    }
    kani::cover!(b.ptr.as_ptr() as usize != g.base as usize + g.off, "moved or reallocated");
    drop(b);
}

// @ob props=C04,C01,C02,C16,C18 tier=quick kind=Kbounded bound="allocation size 8; additional <= 24" fns=BytesMut::reserve,BytesMut::reserve_inner
#[kani::proof]
fn kx_marc_unique_reserve() {
    let (base, vcap) = alloc_fixed(8);
    let (mut b, g) = marc_on(base, vcap, 1);
    let (i, x) = plant_m(&b);
    let n: usize = kani::any();
    kani::assume(n <= 24);
    b.reserve(n);
    assert!(b.cap - b.len >= n && b.len == g.len);
    if g.len > 0 { assert!(b[i] == x); }
    // the block is kept; its Vec owns whatever allocation the region now lives in
    assert!(b.data == g.shared && count(&g) == 1);
    let sh = unsafe { &*g.shared };
    let vb = sh.vec.as_ptr() as usize;
    let p2 = b.ptr.as_ptr() as usize;
    assert!(p2 >= vb && p2 - vb <= sh.vec.capacity() && b.cap <= sh.vec.capacity() - (p2 - vb));
    // C18: no allocation when the request fits behind the view or after moving to the front;
    // an allocating reserve at least doubles the allocation (and covers offset + len + n)
    let nc = g.len + n;
    if n <= g.cap - g.len || g.vcap - g.off >= nc || (g.vcap >= nc && g.off >= g.len) {
        assert!(vb == g.base as usize && sh.vec.capacity() == g.vcap);
    }
    if vb != g.base as usize {
        assert!(sh.vec.capacity() >= 2 * g.vcap && sh.vec.capacity() >= g.off + nc);
    }
    kani::cover!(vb != g.base as usize, "reallocated");
    drop(b);
}

// @ob props=C04,C01,C02,C03,C18 tier=quick kind=Kbounded bound="allocation size 8; additional <= 24" fns=BytesMut::reserve,BytesMut::reserve_inner,release_shared
#[kani::proof]
fn kx_marc_shared_reserve() {
    let (base, vcap) = alloc_fixed(8);
    let (mut b, g) = marc_on(base, vcap, 2);
    let (i, x) = plant_m(&b);
    let (j, y) = plant_outside(&g);
    let n: usize = kani::any();
    kani::assume(n <= 24);
    b.reserve(n);
    assert!(b.cap - b.len >= n && b.len == g.len);
    if g.len > 0 { assert!(b[i] == x); }
    if n > g.cap - g.len {
        // a fresh inline-Vec buffer; the old block lost exactly one reference and is untouched
        assert!(b.kind() == KIND_VEC && (b.data as usize) >> VEC_POS_OFFSET == 0);
        assert!(((b.data as usize) & REPR_MASK) >> ORIGINAL_CAPACITY_OFFSET == g.repr);
        assert!(count(&g) == 1 && block_intact(&g));
        assert!(b.ptr.as_ptr() as usize != g.base as usize + g.off);
        // its size is the request or the handle's original capacity, not more (lemmas/recycle_retention.rs)
        let want = core::cmp::max(g.len + n, original_capacity_from_repr(g.repr));
        assert!(b.cap >= want && b.cap <= core::cmp::max(want, 8));
    } else {
        assert!(count(&g) == 2 && b.data == g.shared);
    }
    assert!(unsafe { *g.base.add(j) } == y);
    kani::cover!(n > g.cap - g.len);
    drop(b);
}

// @ob props=C04,C13,C16,C02 tier=quick kind=Kbounded bound="allocation size 8" expect="panic:(^overflow @ .*reserve_inner$|capacity_overflow$|expect_failed$|handle_error)" fns=BytesMut::reserve,BytesMut::reserve_inner
#[kani::proof]
fn kx_m_reserve_unrepresentable_panics() {
    // len + additional is not representable: reserve must panic, never return, and (C13) must not
    // have touched the handle when it does
    let (base, vcap) = alloc_fixed(8);
    let which: u8 = kani::any();
    let (mut b, g) = if which == 0 { mvec_on(base, vcap) } else if which == 1 { marc_on(base, vcap, 1) } else { marc_on(base, vcap, 2) };
    let n: usize = kani::any();
    kani::assume(n > isize::MAX as usize);
    b.reserve(n);
    assert!(false, "reserve returned for an unrepresentable size");
}
