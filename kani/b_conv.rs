// @parent src/bytes.rs
// Contracts of the consuming conversions of Bytes that copy or move bytes (into Vec<u8>, and into
// BytesMut when not unique).  These paths memmove / memcpy, so the allocation size is fixed to 8
// bytes (bounded stand-in "K8"): offset, length and contents stay symbolic.
#![allow(unused_imports, unused_variables, unused_mut)]
use super::verif_b_wf::*;
use super::*;

unsafe fn unreachable_to_vec(shared: *mut Shared, ptr: *const u8, len: usize) -> Vec<u8> {
    assert!(false, "KIND_ARC arm reached from a KIND_VEC state");
    Vec::new()
}

fn fill(buf: *mut u8, cap: usize) -> [u8; 8] {
    let data: [u8; 8] = kani::any();
    let mut i = 0;
    while i < cap { unsafe { *buf.add(i) = data[i] }; i += 1; }
    data
}

// @ob props=C01,C03,C02,C07 tier=quick kind=Kbounded bound="allocation size 8" leak=1 fns=From<Bytes>for_Vec<u8>,shared_to_vec,shared_to_vec_impl
#[kani::proof]
#[kani::unwind(10)]
fn kx_arc_into_vec_unique() {
    // sole owner: the allocation itself is handed to the Vec (no copy to a new buffer), the bytes
    // are moved to its front, the control block is freed
    let (buf, cap) = fixed_alloc(8);
    let data = fill(buf, cap);
    let (b, g) = any_shared_on(buf, cap, any_arc_vtable(), 1);
    let v: Vec<u8> = b.into();
    assert!(v.len() == g.len && v.capacity() == cap && v.as_ptr() as usize == buf as usize);
    let i: usize = kani::any();
    if i < g.len { assert!(v[i] == data[g.off + i]); }
    kani::cover!(g.off > 0 && g.len > 1);
    drop(v);
}

// @ob props=C01,C03,C02 tier=quick kind=Kbounded bound="allocation size 8" fns=From<Bytes>for_Vec<u8>,shared_to_vec_impl,release_shared
#[kani::proof]
#[kani::unwind(10)]
fn kx_arc_into_vec_shared() {
    // another handle exists: copy, one reference given up, the shared buffer is not touched
    let (buf, cap) = fixed_alloc(8);
    let data = fill(buf, cap);
    let (b, g) = any_shared_on(buf, cap, any_arc_vtable(), 2);
    let v: Vec<u8> = b.into();
    assert!(v.len() == g.len && (g.len == 0 || v.as_ptr() as usize != buf as usize + g.off));
    let i: usize = kani::any();
    if i < g.len { assert!(v[i] == data[g.off + i]); }
    assert!(refcnt(&g) == 1 && unsafe { (*g.shared).buf == buf && (*g.shared).cap == cap });
    let j: usize = kani::any();
    if j < cap { assert!(unsafe { *buf.add(j) } == data[j]); }
    drop(v);
}

// @ob props=C01,C03,C02,C16 tier=quick kind=Kbounded bound="allocation size 8" leak=1 fns=promotable_even_to_vec,promotable_to_vec
#[kani::proof]
#[kani::unwind(10)]
#[kani::stub(shared_to_vec_impl, unreachable_to_vec)]
fn kx_prom_even_into_vec() {
    let (buf, cap) = fixed_alloc(8);
    let data = fill(buf, cap);
    let off: usize = kani::any();
    kani::assume(off <= cap);
    let len = cap - off;
    let tagged = ptr_map(buf, |a| a | KIND_VEC);
    let b = Bytes { ptr: unsafe { buf.add(off) }, len, data: AtomicPtr::new(tagged.cast()), vtable: &PROMOTABLE_EVEN_VTABLE };
    let v: Vec<u8> = b.into();
    // takes the allocation with its true capacity, bytes moved to the front
    assert!(v.len() == len && v.capacity() == cap && v.as_ptr() as usize == buf as usize);
    let i: usize = kani::any();
    if i < len { assert!(v[i] == data[off + i]); }
    kani::cover!(off > 0 && len > 1);
    drop(v);
}

// @ob props=C01,C03,C16 tier=quick kind=Kbounded bound="allocation size 8" fns=promotable_odd_to_vec,promotable_to_vec
#[kani::proof]
#[kani::unwind(10)]
#[kani::stub(shared_to_vec_impl, unreachable_to_vec)]
fn kx_prom_odd_into_vec() {
    let blk: Vec<u8> = Vec::with_capacity(9);
    let mut blk = ManuallyDrop::new(blk);
    let buf = unsafe { blk.as_mut_ptr().add(1) };
    let cap = 8;
    let data = fill(buf, cap);
    let off: usize = kani::any();
    kani::assume(off <= cap);
    let len = cap - off;
    let b = Bytes { ptr: unsafe { buf.add(off) }, len, data: AtomicPtr::new(buf.cast()), vtable: &PROMOTABLE_ODD_VTABLE };
    let v: Vec<u8> = b.into();
    assert!(v.len() == len && v.capacity() == cap && v.as_ptr() as usize == buf as usize);
    let i: usize = kani::any();
    if i < len { assert!(v[i] == data[off + i]); }
    core::mem::forget(v); // odd buffer lives inside a larger block
}

// @ob props=C01,C03,C08 tier=quick kind=Kbounded bound="allocation size 8" fns=From<Bytes>for_BytesMut,shared_to_mut_impl,release_shared
#[kani::proof]
#[kani::unwind(10)]
fn kx_arc_into_mut_shared_copies() {
    // not unique: Into<BytesMut> copies into a fresh buffer and gives up one reference
    let (buf, cap) = fixed_alloc(8);
    let data = fill(buf, cap);
    let (b, g) = any_shared_on(buf, cap, any_arc_vtable(), 2);
    let m: BytesMut = b.into();
    assert!(m.len() == g.len && (g.len == 0 || m.as_ptr() as usize != buf as usize + g.off));
    let i: usize = kani::any();
    if i < g.len { assert!(m[i] == data[g.off + i]); }
    assert!(refcnt(&g) == 1);
    let j: usize = kani::any();
    if j < cap { assert!(unsafe { *buf.add(j) } == data[j]); }
    drop(m);
}

// @ob props=C01,C03 tier=quick kind=Kbounded bound="static data of 16 bytes" leak=1 fns=static_to_vec,static_to_mut
#[kani::proof]
#[kani::unwind(18)]
fn kx_static_into_vec_and_mut() {
    static DATA: [u8; 16] = [9, 8, 7, 6, 5, 4, 3, 2, 1, 0, 11, 12, 13, 14, 15, 16];
    let off: usize = kani::any();
    let len: usize = kani::any();
    kani::assume(off <= 16 && len <= 16 - off);
    let i: usize = kani::any();
    if kani::any() {
        let v: Vec<u8> = Bytes::from_static(&DATA[off..off + len]).into();
        assert!(v.len() == len);
        if i < len { assert!(v[i] == DATA[off + i]); }
    } else {
        let m: BytesMut = Bytes::from_static(&DATA[off..off + len]).into();
        assert!(m.len() == len);
        if i < len { assert!(m[i] == DATA[off + i]); }
    }
}

// ---- K8 twins of the zero-copy conversions ------------------------------------------------------
// The symbolic-size obligations (kx_arc_try_into_mut_unique, ...) prove the real code for every
// size, but a CHANGE that makes such a path copy turns them into symbolic-size memmoves that CBMC
// cannot finish (undecided, not an alarm).  The same contracts on an 8-byte allocation stay
// decidable for such changes and report them.

// @ob props=C07,C08,C04,C01 tier=quick kind=Kbounded bound="allocation size 8" fns=Bytes::try_into_mut,shared_to_mut_impl,promotable_to_mut
#[kani::proof]
#[kani::unwind(10)]
fn kx_arc_try_into_mut_unique_k8() {
    let (buf, cap) = fixed_alloc(8);
    let data = fill(buf, cap);
    let (b, g) = any_shared_on(buf, cap, any_arc_vtable(), 1);
    let p = buf as usize + g.off;
    match b.try_into_mut() {
        Ok(m) => {
            assert!(m.as_ptr() as usize == p && m.len() == g.len && m.capacity() == cap - g.off);
            let i: usize = kani::any();
            if i < g.len { assert!(m[i] == data[g.off + i]); }
            // nothing moved inside the allocation either
            let j: usize = kani::any();
            if j < cap { assert!(unsafe { *buf.add(j) } == data[j]); }
            drop(m);
        }
        Err(e) => { core::mem::forget(e); assert!(false); }
    }
}

// @ob props=C07,C08,C04,C01,C16 tier=quick kind=Kbounded bound="allocation size 8" fns=Bytes::try_into_mut,promotable_odd_to_mut,promotable_to_mut
#[kani::proof]
#[kani::unwind(10)]
fn kx_prom_odd_try_into_mut_k8() {
    let blk: Vec<u8> = Vec::with_capacity(9);
    let mut blk = ManuallyDrop::new(blk);
    let buf = unsafe { blk.as_mut_ptr().add(1) };
    let cap = 8;
    let data = fill(buf, cap);
    let off: usize = kani::any();
    kani::assume(off <= cap);
    let len = cap - off;
    let b = Bytes { ptr: unsafe { buf.add(off) }, len, data: AtomicPtr::new(buf.cast()), vtable: &PROMOTABLE_ODD_VTABLE };
    match b.try_into_mut() {
        Ok(m) => {
            assert!(m.as_ptr() as usize == buf as usize + off && m.len() == len && m.capacity() == len);
            assert!(mvec_fields(&m) == (off, cap));
            let i: usize = kani::any();
            if i < len { assert!(m[i] == data[off + i]); }
            let j: usize = kani::any();
            if j < cap { assert!(unsafe { *buf.add(j) } == data[j]); }
            core::mem::forget(m);
        }
        Err(e) => { core::mem::forget(e); assert!(false); }
    }
}
