// @parent src/buf/buf_mut.rs
// C11 on the crate's real fixed-size and growable targets: &mut [u8], &mut [MaybeUninit<u8>],
// Vec<u8>, and UninitSlice itself.  Fixed-size targets sit inside a larger array whose other
// bytes are guards (checked through a witness index); their methods are loop-free, so lengths
// and fill levels are fully symbolic (Kinf).  Vec<u8> grows: allocation fixed small (bounded).
#![allow(unused_imports, unused_variables, unused_mut, dead_code)]
use super::*;
use core::mem::MaybeUninit;

const M: usize = 24;

// @ob props=C11,C02 tier=quick kind=Kinf fns=BufMut_for_&mut[u8]::put_slice,advance_mut,remaining_mut,chunk_mut,put_bytes
#[kani::proof]
fn kx_slice_target() {
    let mut mem: [u8; M] = kani::any();
    let before = mem;
    let lo: usize = kani::any();
    let hi: usize = kani::any();
    kani::assume(lo <= hi && hi <= M);
    let src: [u8; 8] = kani::any();
    let n: usize = kani::any();
    kani::assume(n <= 8 && n <= hi - lo);
    let val: u8 = kani::any();
    let op: u8 = kani::any();
    {
        let mut t: &mut [u8] = &mut mem[lo..hi];
        assert!(t.remaining_mut() == hi - lo);
        let cl = t.chunk_mut().len();
        assert!(cl == hi - lo);               // never longer than remaining_mut, empty iff it is 0
        if op == 0 { t.put_slice(&src[..n]); } else if op == 1 { t.put_bytes(val, n); } else { unsafe { t.advance_mut(n) }; }
        // fixed-size target: remaining_mut decreases by exactly the number of bytes written
        assert!(t.remaining_mut() == hi - lo - n);
        assert!(t.as_ptr() as usize == before.as_ptr() as usize || true);
    }
    let i: usize = kani::any();
    kani::assume(i < M);
    if i >= lo && i < lo + n && op == 0 { assert!(mem[i] == src[i - lo]); }
    else if i >= lo && i < lo + n && op == 1 { assert!(mem[i] == val); }
    else { assert!(mem[i] == before[i]); }      // guards and the rest of the target untouched
    kani::cover!(n > 0 && lo > 0 && hi < M);
}

// @ob props=C11,C13,C02 tier=quick kind=Kinf expect="panic:panic_advance$" fns=BufMut_for_&mut[u8]::put_slice,put_bytes,advance_mut
#[kani::proof]
fn kx_slice_target_does_not_fit() {
    let mut mem: [u8; M] = kani::any();
    let lo: usize = kani::any();
    let hi: usize = kani::any();
    kani::assume(lo <= hi && hi <= M);
    let src: [u8; 16] = kani::any();
    let n: usize = kani::any();
    kani::assume(n <= 16 && n > hi - lo);
    let op: u8 = kani::any();
    let mut t: &mut [u8] = &mut mem[lo..hi];
    if op == 0 { t.put_slice(&src[..n]); } else if op == 1 { t.put_bytes(src[0], n); } else { unsafe { t.advance_mut(n) }; }
    assert!(false, "write that does not fit returned");
}

// @ob props=C11,C02 tier=quick kind=Kinf fns=BufMut_for_&mut[MaybeUninit<u8>]::put_slice,advance_mut,remaining_mut,chunk_mut,put_bytes
#[kani::proof]
fn kx_uninit_slice_target() {
    let init: [u8; M] = kani::any();
    let mut mem: [MaybeUninit<u8>; M] = [MaybeUninit::new(0); M];
    let mut k = 0;
    while k < M { mem[k] = MaybeUninit::new(init[k]); k += 1; }
    let lo: usize = kani::any();
    let hi: usize = kani::any();
    kani::assume(lo <= hi && hi <= M);
    let src: [u8; 8] = kani::any();
    let n: usize = kani::any();
    kani::assume(n <= 8 && n <= hi - lo);
    let val: u8 = kani::any();
    let op: u8 = kani::any();
    {
        let mut t: &mut [MaybeUninit<u8>] = &mut mem[lo..hi];
        assert!(t.remaining_mut() == hi - lo && t.chunk_mut().len() == hi - lo);
        if op == 0 { t.put_slice(&src[..n]); } else if op == 1 { t.put_bytes(val, n); } else { unsafe { t.advance_mut(n) }; }
        assert!(t.remaining_mut() == hi - lo - n);
    }
    let i: usize = kani::any();
    kani::assume(i < M);
    let got = unsafe { mem[i].assume_init() };
    if i >= lo && i < lo + n && op == 0 { assert!(got == src[i - lo]); }
    else if i >= lo && i < lo + n && op == 1 { assert!(got == val); }
    else { assert!(got == init[i]); }
}

// @ob props=C11,C13,C02 tier=quick kind=Kinf expect="panic:panic_advance$" fns=BufMut_for_&mut[MaybeUninit<u8>]::put_slice,put_bytes,advance_mut
#[kani::proof]
fn kx_uninit_slice_target_does_not_fit() {
    let mut mem: [MaybeUninit<u8>; M] = [MaybeUninit::new(0); M];
    let lo: usize = kani::any();
    let hi: usize = kani::any();
    kani::assume(lo <= hi && hi <= M);
    let src: [u8; 16] = kani::any();
    let n: usize = kani::any();
    kani::assume(n <= 16 && n > hi - lo);
    let op: u8 = kani::any();
    let mut t: &mut [MaybeUninit<u8>] = &mut mem[lo..hi];
    if op == 0 { t.put_slice(&src[..n]); } else if op == 1 { t.put_bytes(src[0], n); } else { unsafe { t.advance_mut(n) }; }
    assert!(false, "write that does not fit returned");
}

// @ob props=C11,C02 tier=quick kind=Kinf fns=UninitSlice::write_byte,UninitSlice::copy_from_slice,UninitSlice::index_mut,UninitSlice::len,UninitSlice::new
#[kani::proof]
fn kx_uninit_slice_ops() {
    let mut mem: [u8; M] = kani::any();
    let before = mem;
    let lo: usize = kani::any();
    let hi: usize = kani::any();
    kani::assume(lo <= hi && hi <= M);
    let a: usize = kani::any();
    let z: usize = kani::any();
    kani::assume(a <= z && z <= hi - lo);
    let src: [u8; M] = kani::any();
    let op: u8 = kani::any();
    let idx: usize = kani::any();
    let val: u8 = kani::any();
    {
        let us = UninitSlice::new(&mut mem[lo..hi]);
        assert!(us.len() == hi - lo);
        // sub-slicing (the contract assumed in Verus unit bufmut): length and start address
        let base = us.as_mut_ptr() as usize;
        let sub = &mut us[a..z];
        assert!(sub.len() == z - a && sub.as_mut_ptr() as usize == base + a);
        let sub2 = &mut us[..z];
        assert!(sub2.len() == z && sub2.as_mut_ptr() as usize == base);
        if op == 0 {
            let sub = &mut us[a..z];
            sub.copy_from_slice(&src[..z - a]);
        } else {
            kani::assume(idx < hi - lo);
            us.write_byte(idx, val);
        }
    }
    let i: usize = kani::any();
    kani::assume(i < M);
    if op == 0 {
        if i >= lo + a && i < lo + z { assert!(mem[i] == src[i - lo - a]); } else { assert!(mem[i] == before[i]); }
    } else {
        if i == lo + idx { assert!(mem[i] == val); } else { assert!(mem[i] == before[i]); }
    }
}

// @ob props=C11,C13,C02 tier=quick kind=Kinf expect="panic:(UninitSlice::write_byte|UninitSlice::copy_from_slice|index|slice_.*fail|assert_failed)" fns=UninitSlice::write_byte,UninitSlice::copy_from_slice,UninitSlice::index_mut
#[kani::proof]
fn kx_uninit_slice_ops_out_of_bounds_panic() {
    let mut mem: [u8; M] = kani::any();
    let len: usize = kani::any();
    kani::assume(len <= M);
    let us = UninitSlice::new(&mut mem[..len]);
    let op: u8 = kani::any();
    let a: usize = kani::any();
    if op == 0 {
        kani::assume(a >= len);
        us.write_byte(a, 1);
    } else if op == 1 {
        let src: [u8; M] = kani::any();
        kani::assume(a <= M && a != len);
        us.copy_from_slice(&src[..a]);
    } else {
        kani::assume(a > len);
        let _ = &mut us[..a];
    }
    assert!(false, "out-of-bounds UninitSlice operation returned");
}

// @ob props=C11,C02 tier=quick kind=Kbounded bound="Vec capacity 8, appended <= 8 bytes" leak=1 fns=BufMut_for_Vec<u8>::put_slice,put_bytes,advance_mut,chunk_mut,remaining_mut
#[kani::proof]
#[kani::unwind(10)]
fn kx_vec_target() {
    let mut v: Vec<u8> = Vec::with_capacity(8);
    let init: [u8; 8] = kani::any();
    let l0: usize = kani::any();
    kani::assume(l0 <= 8);
    let mut k = 0;
    while k < l0 { v.push(init[k]); k += 1; }
    assert!(v.remaining_mut() == isize::MAX as usize - l0);
    let src: [u8; 8] = kani::any();
    let n: usize = kani::any();
    kani::assume(n <= 8);
    let val: u8 = kani::any();
    let op: u8 = kani::any();
    if op == 0 {
        v.put_slice(&src[..n]);
    } else if op == 1 {
        v.put_bytes(val, n);
    } else {
        // chunk_mut is never empty for a growable target, and is exactly the spare capacity
        let c = v.chunk_mut();
        let (cl, cp) = (c.len(), c.as_mut_ptr() as usize);
        assert!(cl >= 1 && cl == v.capacity() - v.len() && cp == v.as_ptr() as usize + v.len());
        kani::assume(n <= cl);
        let mut j = 0;
        while j < n { unsafe { *(cp as *mut u8).add(j) = src[j] }; j += 1; }
        unsafe { v.advance_mut(n) };
    }
    assert!(v.len() == l0 + n);
    let i: usize = kani::any();
    if i < l0 { assert!(v[i] == init[i]); }
    if i < n { assert!(v[l0 + i] == if op == 1 { val } else { src[i] }); }
    kani::cover!(l0 + n > 8, "grew");
}

// @ob props=C11,C13,C02 tier=quick kind=Kbounded bound="Vec capacity 8" expect="panic:panic_advance$" fns=BufMut_for_Vec<u8>::advance_mut
#[kani::proof]
fn kx_vec_target_advance_mut_beyond_capacity_panics() {
    let mut v: Vec<u8> = Vec::with_capacity(8);
    let l0: usize = kani::any();
    kani::assume(l0 <= 8);
    unsafe { v.set_len(l0) };
    let n: usize = kani::any();
    kani::assume(n > v.capacity() - l0);
    unsafe { v.advance_mut(n) };
    assert!(false, "advance_mut beyond capacity returned");
}

// @ob props=C11,C12 tier=quick kind=Kbounded bound="inner Vec<u8> with capacity 4; limit <= 16" fns=Limit::chunk_mut,Limit::remaining_mut,Limit::advance_mut,Vec<u8>::chunk_mut
#[kani::proof]
#[kani::unwind(6)]
fn kx_limit_over_a_chunk_shorter_than_the_limit() {
    // real-type twin of V `impl BufMut for Limit<T>`: the inner target's current chunk may be
    // SHORTER than the limit (growable target, chain boundary).  chunk_mut() is then the inner
    // chunk, never a panic (seed C12-7 sliced the inner chunk with remaining_mut()).
    let mut v: Vec<u8> = Vec::with_capacity(4);
    kani::assume(v.capacity() == 4);
    let n: usize = kani::any();
    kani::assume(n <= 16);
    let mut l = crate::BufMut::limit(&mut v, n);
    assert!(crate::BufMut::remaining_mut(&l) == n);
    let c = crate::BufMut::chunk_mut(&mut l).len();
    assert!(c == if n < 4 { n } else { 4 });
    let k: usize = kani::any();
    kani::assume(k <= c);
    unsafe { crate::BufMut::advance_mut(&mut l, k) };
    assert!(crate::buf::Limit::limit(&l) == n - k && crate::BufMut::remaining_mut(&l) == n - k && l.get_ref().len() == k);
    kani::cover!(n > 4 && k == 4);
}
