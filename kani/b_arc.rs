// @parent src/bytes.rs
// Contracts of the Bytes operations on the KIND_ARC representation (bytes::Shared control block),
// reached through SHARED_VTABLE and through both promotable vtables after promotion.
// Pattern: symbolic pre-state from the invariant -> ONE crate call -> postcondition + frame.
#![allow(unused_imports, unused_variables, unused_mut)]
use super::verif_b_wf::*;
use super::*;

// @ob props=C01,C02,C03,C07,C16 tier=quick kind=Kinf fns=Bytes::clone,shared_clone,promotable_even_clone,promotable_odd_clone,shallow_clone_arc
#[kani::proof]
fn kx_arc_clone() {
    let (b, g) = any_arc();
    let (i, x) = plant(&b);
    let c = b.clone();
    // refcount +1, same block, same view, same address (zero-copy)
    assert!(refcnt(&g) == g.k + 1);
    assert!(is_vt(&c, &SHARED_VTABLE));
    assert!(wf_arc(&c, &g, g.buf as usize + g.off, g.len));
    assert!(wf_arc(&b, &g, g.buf as usize + g.off, g.len));
    if g.len > 0 {
        assert!(kani::mem::same_allocation(c.ptr, b.ptr));
        assert!(c.as_slice()[i] == x && b.as_slice()[i] == x);
    }
    kani::cover!(g.len > 0 && g.off > 0);
    core::mem::forget(b);
    core::mem::forget(c);
}

// @ob props=C01,C02,C03,C07 tier=quick kind=Kinf fns=Bytes::slice
#[kani::proof]
fn kx_arc_slice() {
    let (b, g) = any_arc();
    let (i, x) = plant(&b);
    let lo: usize = kani::any();
    let hi: usize = kani::any();
    kani::assume(lo <= hi && hi <= g.len);
    let s = b.slice(lo..hi);
    let p = g.buf as usize + g.off;
    assert!(s.len == hi - lo);
    if hi > lo {
        assert!(refcnt(&g) == g.k + 1);
        assert!(is_vt(&s, &SHARED_VTABLE));
        assert!(wf_arc(&s, &g, p + lo, hi - lo));
        assert!(kani::mem::same_allocation(s.ptr, b.ptr));
        if i >= lo && i < hi {
            assert!(s.as_slice()[i - lo] == x);
        }
    } else {
        assert!(refcnt(&g) == g.k);
        assert!(is_static(&s));
    }
    assert!(wf_arc(&b, &g, p, g.len));
    kani::cover!(hi > lo && lo > 0 && hi < g.len);
    kani::cover!(hi == lo);
    core::mem::forget(s);
    core::mem::forget(b);
}

// @ob props=C01,C02,C03,C07 tier=quick kind=Kinf fns=Bytes::slice
#[kani::proof]
fn kx_arc_slice_inclusive_unbounded() {
    // the other RangeBounds shapes: `lo..=hi`, `..hi`, `lo..`
    let (b, g) = any_arc();
    let lo: usize = kani::any();
    let hi: usize = kani::any();
    let p = g.buf as usize + g.off;
    let which: u8 = kani::any();
    use core::ops::Bound;
    if which == 0 {
        kani::assume(lo <= hi && hi < g.len);
        let s = b.slice(lo..=hi);
        assert!(s.len == hi - lo + 1 && s.ptr as usize == p + lo && refcnt(&g) == g.k + 1);
        core::mem::forget(s);
    } else if which == 1 {
        kani::assume(hi <= g.len);
        let s = b.slice(..hi);
        assert!(s.len == hi && (hi == 0 || (s.ptr as usize == p && refcnt(&g) == g.k + 1)));
        core::mem::forget(s);
    } else if which == 2 {
        kani::assume(lo <= g.len);
        let s = b.slice(lo..);
        assert!(s.len == g.len - lo && (lo == g.len || (s.ptr as usize == p + lo && refcnt(&g) == g.k + 1)));
        core::mem::forget(s);
    } else if which == 3 {
        // excluded start (only reachable through an explicit (Bound, Bound) pair): starts at lo + 1
        kani::assume(lo < hi && hi < g.len);
        let s = b.slice((Bound::Excluded(lo), Bound::Included(hi)));
        assert!(s.len == hi - lo && s.ptr as usize == p + lo + 1 && refcnt(&g) == g.k + 1);
        core::mem::forget(s);
    } else {
        kani::assume(lo < g.len);
        let s = b.slice((Bound::Excluded(lo), Bound::Unbounded));
        assert!(s.len == g.len - lo - 1 && (s.len == 0 || (s.ptr as usize == p + lo + 1 && refcnt(&g) == g.k + 1)));
        core::mem::forget(s);
    }
    core::mem::forget(b);
}

// @ob props=C01,C02,C03,C07 tier=quick kind=Kinf fns=Bytes::slice_ref
#[kani::proof]
fn kx_arc_slice_ref() {
    let (b, g) = any_arc();
    let lo: usize = kani::any();
    let hi: usize = kani::any();
    kani::assume(lo <= hi && hi <= g.len);
    let p = g.buf as usize + g.off;
    let sub: &[u8] = unsafe { slice::from_raw_parts(b.ptr.add(lo), hi - lo) };
    let s = b.slice_ref(sub);
    assert!(s.len == hi - lo);
    if hi > lo {
        assert!(wf_arc(&s, &g, p + lo, hi - lo) && refcnt(&g) == g.k + 1 && is_vt(&s, &SHARED_VTABLE));
    } else {
        assert!(refcnt(&g) == g.k && is_static(&s));
    }
    kani::cover!(hi > lo && lo > 0);
    core::mem::forget(s);
    core::mem::forget(b);
}

// @ob props=C01,C02,C03,C07 tier=quick kind=Kinf fns=Bytes::split_off,Bytes::inc_start,Bytes::new_empty_with_ptr
#[kani::proof]
#[kani::stub(without_provenance, without_provenance_contract)]
fn kx_arc_split_off() {
    let (mut b, g) = any_arc();
    let (i, x) = plant(&b);
    let vt0 = b.vtable;
    let at: usize = kani::any();
    kani::assume(at <= g.len);
    let p = g.buf as usize + g.off;
    let r = b.split_off(at);
    if at == g.len {
        assert!(is_empty_static_at(&r, p + at));
        assert!(wf_arc(&b, &g, p, g.len) && refcnt(&g) == g.k && b.vtable as *const Vtable == vt0 as *const Vtable);
    } else if at == 0 {
        // the whole handle moves out, self keeps the address
        assert!(wf_arc(&r, &g, p, g.len) && refcnt(&g) == g.k && r.vtable as *const Vtable == vt0 as *const Vtable);
        assert!(is_empty_static_at(&b, p));
    } else {
        assert!(refcnt(&g) == g.k + 1);
        assert!(wf_arc(&b, &g, p, at));
        assert!(wf_arc(&r, &g, p + at, g.len - at) && is_vt(&r, &SHARED_VTABLE));
        if i < at { assert!(b.as_slice()[i] == x); } else { assert!(r.as_slice()[i - at] == x); }
    }
    kani::cover!(at > 0 && at < g.len);
    kani::cover!(at == 0 && g.len > 0);
    kani::cover!(at == g.len && g.len > 0);
    core::mem::forget(r);
    core::mem::forget(b);
}

// @ob props=C01,C02,C03,C07 tier=quick kind=Kinf fns=Bytes::split_to,Bytes::inc_start,Bytes::new_empty_with_ptr
#[kani::proof]
#[kani::stub(without_provenance, without_provenance_contract)]
fn kx_arc_split_to() {
    let (mut b, g) = any_arc();
    let (i, x) = plant(&b);
    let vt0 = b.vtable;
    let at: usize = kani::any();
    kani::assume(at <= g.len);
    let p = g.buf as usize + g.off;
    let r = b.split_to(at);
    if at == g.len {
        assert!(wf_arc(&r, &g, p, g.len) && refcnt(&g) == g.k && r.vtable as *const Vtable == vt0 as *const Vtable);
        assert!(is_empty_static_at(&b, p + at));
    } else if at == 0 {
        assert!(is_empty_static_at(&r, p));
        assert!(wf_arc(&b, &g, p, g.len) && refcnt(&g) == g.k);
    } else {
        assert!(refcnt(&g) == g.k + 1);
        assert!(wf_arc(&r, &g, p, at) && is_vt(&r, &SHARED_VTABLE));
        assert!(wf_arc(&b, &g, p + at, g.len - at));
        if i < at { assert!(r.as_slice()[i] == x); } else { assert!(b.as_slice()[i - at] == x); }
    }
    kani::cover!(at > 0 && at < g.len);
    core::mem::forget(r);
    core::mem::forget(b);
}

// @ob props=C01,C02,C03,C07,C13 tier=quick kind=Kinf fns=Bytes::truncate,Bytes::clear
#[kani::proof]
#[kani::stub(without_provenance, without_provenance_contract)]
fn kx_arc_truncate() {
    let (mut b, g) = any_arc();
    let (i, x) = plant(&b);
    let n: usize = kani::any(); // unconstrained: beyond len is the documented no-op
    let p = g.buf as usize + g.off;
    let clear: bool = kani::any();
    let prom = !is_vt(&b, &SHARED_VTABLE);
    if clear { kani::assume(n == 0); b.clear(); } else { b.truncate(n); }
    let nl = if n < g.len { n } else { g.len };
    if prom && n == 0 && g.len > 0 {
        // promotable vtables: split_off(0) moves the whole handle out and drops it; self keeps
        // the address as an empty handle that owns nothing
        assert!(is_empty_static_at(&b, p));
        if g.k > 1 { assert!(refcnt(&g) == g.k - 1); }
    } else {
        // net refcount unchanged (promotable: split_off + drop of the tail)
        assert!(refcnt(&g) == g.k);
        assert!(wf_arc(&b, &g, p, nl));
        if i < nl { assert!(b.as_slice()[i] == x); }
    }
    kani::cover!(prom && n == 0 && g.len > 0 && g.k == 1);
    kani::cover!(n < g.len && n > 0);
    kani::cover!(n > g.len);
    core::mem::forget(b);
}

// @ob props=C01,C02,C07,C13 tier=quick kind=Kinf fns=Bytes::advance,Bytes::inc_start
#[kani::proof]
fn kx_arc_advance() {
    let (mut b, g) = any_arc();
    let (i, x) = plant(&b);
    let n: usize = kani::any();
    kani::assume(n <= g.len);
    let p = g.buf as usize + g.off;
    Buf::advance(&mut b, n);
    assert!(wf_arc(&b, &g, p + n, g.len - n) && refcnt(&g) == g.k);
    if i >= n && g.len > 0 { assert!(b.as_slice()[i - n] == x); }
    assert!(Buf::remaining(&b) == g.len - n && Buf::chunk(&b).len() == g.len - n);
    kani::cover!(n > 0 && n < g.len);
    core::mem::forget(b);
}

// @ob props=C08,C01 tier=quick kind=Kinf fns=Bytes::is_unique,shared_is_unique,promotable_is_unique
#[kani::proof]
fn kx_arc_is_unique() {
    let (b, g) = any_arc();
    let u = b.is_unique();
    assert!(u == (g.k == 1));
    assert!(refcnt(&g) == g.k && wf_arc(&b, &g, g.buf as usize + g.off, g.len));
    kani::cover!(u);
    kani::cover!(!u);
    core::mem::forget(b);
}

// @ob props=C03,C02,C01 tier=quick kind=Kinf fns=Bytes::drop,shared_drop,promotable_even_drop,promotable_odd_drop,release_shared,Shared::drop
#[kani::proof]
#[kani::stub(alloc::alloc::dealloc, ledger_dealloc)]
fn kx_arc_drop() {
    let (b, g) = any_arc();
    unsafe { ledger_expect(g.buf, g.cap) };
    drop(b);
    if g.k == 1 {
        // last handle: buffer released exactly once with the allocated layout, block freed
        assert!(ledger_freed() == 1);
    } else {
        assert!(ledger_freed() == 0);
        assert!(refcnt(&g) == g.k - 1);
        assert!(unsafe { (*g.shared).buf == g.buf && (*g.shared).cap == g.cap });
    }
    kani::cover!(g.k == 1);
    kani::cover!(g.k > 1);
}

// @ob props=C03,C02 tier=quick kind=Kinf fns=release_shared,Shared::drop note="real dealloc: Kani's own allocator model checks size/validity/double free"
#[kani::proof]
fn kx_arc_drop_real_dealloc() {
    let (b, g) = any_arc();
    drop(b);
    if g.k > 1 {
        assert!(refcnt(&g) == g.k - 1);
    }
}

// @ob props=C08,C07,C04,C01,C02,C03 tier=quick kind=Kinf fns=Bytes::try_into_mut,From<Bytes>for_BytesMut,shared_to_mut,shared_to_mut_impl,promotable_to_mut
#[kani::proof]
fn kx_arc_try_into_mut_unique() {
    let (b, g) = any_arc_unique();
    let (i, x) = plant(&b);
    let p = g.buf as usize + g.off;
    let r = b.try_into_mut();
    match r {
        Ok(m) => {
            // same memory, capacity = rest of the allocation, control block gone
            assert!(m.as_ptr() as usize == p && m.len() == g.len && m.capacity() == g.cap - g.off);
            if g.len > 0 { assert!(m[i] == x); }
            if g.len > 0 { assert!(kani::mem::same_allocation(m.as_ptr(), g.buf as *const u8)); }
            kani::cover!(g.off > 0 && g.len > 0);
            drop(m); // the allocation goes back through Vec with (buf, cap): Kani checks the layout
        }
        Err(e) => { core::mem::forget(e); assert!(false); }
    }
}

// @ob props=C08,C01,C03 tier=quick kind=Kinf fns=Bytes::try_into_mut
#[kani::proof]
fn kx_arc_try_into_mut_shared() {
    // count fixed to the literal 2 so that CBMC prunes the (copying) conversion branch; that
    // is_unique() is false for every k > 1 is kx_arc_is_unique, and try_into_mut branches on
    // is_unique() only
    let (buf, cap) = any_alloc();
    let (b, g) = any_shared_on(buf, cap, any_arc_vtable(), 2);
    let r = b.try_into_mut();
    match r {
        Ok(m) => { core::mem::forget(m); assert!(false); }
        Err(b2) => {
            assert!(wf_arc(&b2, &g, g.buf as usize + g.off, g.len) && refcnt(&g) == g.k);
            core::mem::forget(b2);
        }
    }
}
