// @parent src/buf/buf_impl.rs
// @requires std
// C09, chunks_vectored: "fills at most dst.len() slices whose concatenation is a prefix of the
// sequence, with at least one non-empty slice when bytes remain and dst is non-empty, and dst
// untouched beyond the returned count" - for the default method, Chain, Take (incl. its lifetime
// transmute), VecDeque, Bytes and the &mut T forwarder.  Slices have symbolic lengths 0..=4 and
// symbolic contents; dst has symbolic length 0..=4; Take's limit is any usize.
#![allow(unused_imports, unused_variables, unused_mut, dead_code)]
use super::*;
use std::io::IoSlice;

static SENTINEL: [u8; 1] = [0xA5];

pub struct Three { a: [u8; 4], b: [u8; 4], c: [u8; 4], la: usize, lb: usize, lc: usize }

pub fn any_three() -> Three { any_three_upto(4) }

pub fn any_three_upto(m: usize) -> Three {
    let t = Three { a: kani::any(), b: kani::any(), c: kani::any(), la: kani::any(), lb: kani::any(), lc: kani::any() };
    kani::assume(t.la <= m && t.lb <= m && t.lc <= m);
    t
}

impl Three {
    fn total(&self) -> usize { self.la + self.lb + self.lc }
    /// k-th byte of a ++ b ++ c
    fn at(&self, k: usize) -> u8 {
        if k < self.la { self.a[k] } else if k < self.la + self.lb { self.b[k - self.la] } else { self.c[k - self.la - self.lb] }
    }
}

/// checks the contract of one chunks_vectored call whose logical sequence is the first `rem`
/// bytes of `t`'s concatenation
fn check_vectored(t: &Three, rem: usize, dst: &[IoSlice<'_>], dlen: usize, n: usize) {
    assert!(n <= dlen);
    // concatenation of dst[..n] is a prefix of the sequence: lengths add up to <= rem and the
    // byte at a symbolic position of the concatenation is the byte of the sequence there
    let k: usize = kani::any();
    let mut total = 0usize;
    let mut nonempty = false;
    let mut i = 0;
    while i < n {
        let s: &[u8] = &dst[i];
        if k >= total && k < total + s.len() {
            assert!(k < rem && s[k - total] == t.at(k));
        }
        if s.len() > 0 { nonempty = true; }
        total += s.len();
        i += 1;
    }
    assert!(total <= rem);
    if rem > 0 && dlen > 0 { assert!(n >= 1 && nonempty); }
    // dst untouched beyond the returned count
    let j: usize = kani::any();
    if j >= n && j < 4 {
        let s: &[u8] = &dst[j];
        assert!(s.as_ptr() == SENTINEL.as_ptr() && s.len() == 1);
    }
}

fn sentinels<'a>() -> [IoSlice<'a>; 4] {
    [IoSlice::new(&SENTINEL), IoSlice::new(&SENTINEL), IoSlice::new(&SENTINEL), IoSlice::new(&SENTINEL)]
}

fn any_dlen() -> usize {
    let d: usize = kani::any();
    kani::assume(d <= 4);
    d
}

// @ob props=C09,C17 tier=quick kind=Kstruct bound="3 slices of 0..=4 bytes, dst of 0..=4 entries" fns=Chain::chunks_vectored,Buf::chunks_vectored(&[u8])
#[kani::proof]
#[kani::unwind(6)]
fn kx_vectored_chain3() {
    let t = any_three();
    let buf = Chain::new(Chain::new(&t.a[..t.la], &t.b[..t.lb]), &t.c[..t.lc]);
    let mut dst = sentinels();
    let dlen = any_dlen();
    let n = buf.chunks_vectored(&mut dst[..dlen]);
    check_vectored(&t, t.total(), &dst, dlen, n);
    kani::cover!(n == 3);
    kani::cover!(n == 1 && t.la == 0 && t.lb > 0, "empty first half skipped");
}

fn take_chain3(m: usize) {
    let t = any_three_upto(m);
    let limit: usize = kani::any();
    let buf = take::new(Chain::new(Chain::new(&t.a[..t.la], &t.b[..t.lb]), &t.c[..t.lc]), limit);
    let mut dst = sentinels();
    let dlen = any_dlen();
    let n = buf.chunks_vectored(&mut dst[..dlen]);
    let rem = if limit < t.total() { limit } else { t.total() };
    assert!(buf.remaining() == rem);
    check_vectored(&t, rem, &dst, dlen, n);
    kani::cover!(n == 3 && limit < t.total(), "limit ends inside the third slice");
    kani::cover!(n == 2 && limit < t.la + t.lb && limit > t.la, "limit ends inside the second slice");
}

// @ob props=C09,C12,C17 tier=quick kind=Kstruct bound="3 slices of 0..=2 bytes, dst of 0..=4 entries, any limit; Take's scratch array of 16 is structural" fns=Take::chunks_vectored
#[kani::proof]
#[kani::unwind(18)]
fn kx_vectored_take_chain3() { take_chain3(2); }

// @ob props=C09,C12,C17 tier=thorough kind=Kstruct bound="3 slices of 0..=4 bytes, dst of 0..=4 entries, any limit" timeout=3000 fns=Take::chunks_vectored
#[kani::proof]
#[kani::unwind(18)]
fn kx_vectored_take_chain3_len4() { take_chain3(4); }

// @ob props=C09,C17 tier=quick kind=Kstruct bound="dst of 0..=4 entries" fns=Buf::chunks_vectored
#[kani::proof]
#[kani::unwind(6)]
fn kx_vectored_default() {
    // the default method on an abstract implementor whose first chunk is a solver-chosen prefix
    let b = verif_g_getters::any_buf();
    kani::assume(b.end - b.pos <= 12);
    let mut dst = sentinels();
    let dlen = any_dlen();
    let n = b.chunks_vectored(&mut dst[..dlen]);
    assert!(n <= dlen && n <= 1);
    if b.end > b.pos && dlen > 0 {
        assert!(n == 1);
        let s: &[u8] = &dst[0];
        assert!(s.len() >= 1 && s.len() <= b.end - b.pos);
        let k: usize = kani::any();
        if k < s.len() { assert!(s[k] == b.data[b.pos + k]); }
    } else {
        assert!(n == 0);
    }
    let j: usize = kani::any();
    if j >= n && j < 4 { let s: &[u8] = &dst[j]; assert!(s.as_ptr() == SENTINEL.as_ptr() && s.len() == 1); }
}

// @ob props=C09 tier=quick kind=Kstruct bound="2 slices of 0..=4 bytes behind &mut, dst of 0..=4 entries" fns=deref_forward_buf::chunks_vectored
#[kani::proof]
#[kani::unwind(6)]
fn kx_vectored_forwarder_mut_ref() {
    let t = { let mut t = any_three(); t.lc = 0; t };
    let mut inner = Chain::new(&t.a[..t.la], &t.b[..t.lb]);
    let r = &mut inner;
    let mut dst = sentinels();
    let dlen = any_dlen();
    let n = Buf::chunks_vectored(&r, &mut dst[..dlen]);
    check_vectored(&t, t.total(), &dst, dlen, n);
}

// @ob props=C09 tier=quick kind=Kstruct bound="2 slices of 0..=4 bytes behind Box, dst of 0..=4 entries" fns=deref_forward_buf::chunks_vectored
#[kani::proof]
#[kani::unwind(6)]
fn kx_vectored_forwarder_box() {
    let t = { let mut t = any_three(); t.lc = 0; t };
    let bx = Box::new(Chain::new(&t.a[..t.la], &t.b[..t.lb]));
    let mut dst = sentinels();
    let dlen = any_dlen();
    let n = Buf::chunks_vectored(&bx, &mut dst[..dlen]);
    check_vectored(&t, t.total(), &dst, dlen, n);
}

fn any_deque(vals: &[u8; 4]) -> (alloc::collections::VecDeque<u8>, usize) {
    use alloc::collections::VecDeque;
    let mut d: VecDeque<u8> = VecDeque::with_capacity(4);
    // reach every (head, len) by rotating: push `pre` elements, pop them, then push `len`
    let pre: usize = kani::any();
    let len: usize = kani::any();
    kani::assume(pre <= 3 && len <= 4);
    let mut i = 0;
    while i < pre { d.push_back(0); d.pop_front(); i += 1; }
    i = 0;
    while i < len { d.push_back(vals[i]); i += 1; }
    (d, len)
}

// @ob props=C09 tier=quick kind=Kbounded bound="VecDeque capacity 4, every head position / length / wrap-around" timeout=1500 fns=VecDeque::chunk,VecDeque::remaining,VecDeque::advance
#[kani::proof]
#[kani::unwind(6)]
fn kx_vecdeque_cursor_laws() {
    let vals: [u8; 4] = kani::any();
    let (mut d, len) = any_deque(&vals);
    assert!(Buf::remaining(&d) == len);
    let c = Buf::chunk(&d);
    assert!(c.len() <= len && (c.len() == 0) == (len == 0));
    let k: usize = kani::any();
    if k < c.len() { assert!(c[k] == vals[k]); }
    let a: usize = kani::any();
    kani::assume(a <= len);
    Buf::advance(&mut d, a);
    assert!(Buf::remaining(&d) == len - a);
    let c2 = Buf::chunk(&d);
    if c2.len() > 0 { assert!(c2[0] == vals[a]); }
}

// @ob props=C09 tier=quick kind=Kbounded bound="VecDeque capacity 4, every head position / length / wrap-around; dst of 0..=3 entries" timeout=1500 fns=VecDeque::chunks_vectored
#[kani::proof]
#[kani::unwind(6)]
fn kx_vecdeque_vectored() {
    let vals: [u8; 4] = kani::any();
    let (d, len) = any_deque(&vals);
    let k: usize = kani::any();
    let mut dst = [IoSlice::new(&SENTINEL), IoSlice::new(&SENTINEL), IoSlice::new(&SENTINEL)];
    let dlen: usize = kani::any();
    kani::assume(dlen <= 3);
    let n = Buf::chunks_vectored(&d, &mut dst[..dlen]);
    assert!(n <= dlen && n <= 2);
    let mut total = 0;
    let mut j = 0;
    while j < n {
        let s: &[u8] = &dst[j];
        if k >= total && k < total + s.len() { assert!(s[k - total] == vals[k]); }
        total += s.len();
        j += 1;
    }
    assert!(total <= len);
    if len > 0 && dlen > 0 { assert!(n >= 1 && dst[0].len() > 0); }
    if n < 3 { let s: &[u8] = &dst[2]; assert!(s.as_ptr() == SENTINEL.as_ptr()); }
    kani::cover!(n == 2, "wrapped around");
}

// @ob props=C09,C13 tier=quick kind=Kbounded bound="VecDeque capacity 4" expect="panic:." fns=VecDeque::advance
#[kani::proof]
#[kani::unwind(8)]
fn kx_vecdeque_advance_beyond_panics() {
    use alloc::collections::VecDeque;
    let mut d: VecDeque<u8> = VecDeque::with_capacity(4);
    let len: usize = kani::any();
    kani::assume(len <= 4);
    let mut i = 0;
    while i < len { d.push_back(i as u8); i += 1; }
    let a: usize = kani::any();
    kani::assume(a > len);
    Buf::advance(&mut d, a);
    assert!(false, "advance beyond remaining returned");
}

// @ob props=C09,C13 tier=quick kind=Kbounded bound="underlying slice of 0..=4 bytes; position any u64" fns=Buf_for_Cursor::remaining,Buf_for_Cursor::chunk,Buf_for_Cursor::advance
#[kani::proof]
fn kx_cursor_cursor_laws_any_position() {
    // real-type twin of V `impl Buf for io::Cursor<AbsT>`: the position is ANY u64, in particular
    // beyond the end (set_position / Seek): then the cursor denotes the empty sequence - remaining 0,
    // chunk empty (not a panic: seed C09-7), advance(0) accepted.
    let data: [u8; 4] = kani::any();
    let n: usize = kani::any();
    kani::assume(n <= 4);
    let mut c = std::io::Cursor::new(&data[..n]);
    let pos: u64 = kani::any();
    c.set_position(pos);
    let rem = if pos >= n as u64 { 0 } else { n - pos as usize };
    assert!(Buf::remaining(&c) == rem && Buf::has_remaining(&c) == (rem > 0));
    let ch = Buf::chunk(&c);
    assert!(ch.len() == rem);
    let i: usize = kani::any();
    if i < rem { assert!(ch[i] == data[pos as usize + i]); }
    let k: usize = kani::any();
    kani::assume(k <= rem);
    Buf::advance(&mut c, k);
    assert!(c.position() == pos + k as u64 && Buf::remaining(&c) == rem - k);
    kani::cover!(pos > 4 && k == 0, "advance(0) beyond the end");
    kani::cover!(rem > 0 && k == rem);
}
