// @parent src/bytes.rs
// Representation invariants and symbolic pre-state builders for `Bytes` (DESIGN.md Appendix A).
// No harness here; every builder returns the handle plus ghost facts, and `wf_*` is asserted by
// every harness on every handle an operation returns or leaves behind.
#![allow(dead_code, unused_imports, unused_variables, unused_mut)]
use super::*;

pub const MAXCAP: usize = 1usize << 40;

/// ghost facts about one heap byte buffer
#[derive(Clone, Copy)]
pub struct Ghost {
    pub buf: *mut u8,   // allocation base
    pub cap: usize,     // allocation size (align 1)
    pub shared: *mut Shared, // control block or null
    pub k: usize,       // reference count in the pre-state
    pub off: usize,     // view offset from buf
    pub len: usize,     // view length
}

/// a live heap object of `cap` bytes, align 1, as `Vec::with_capacity` / `Box<[u8]>` make it
pub fn any_alloc() -> (*mut u8, usize) {
    let cap: usize = kani::any();
    kani::assume(cap >= 1 && cap <= MAXCAP);
    let v: Vec<u8> = Vec::with_capacity(cap);
    let mut v = ManuallyDrop::new(v);
    kani::assume(v.capacity() == cap);
    (v.as_mut_ptr(), cap)
}

pub fn fixed_alloc(cap: usize) -> (*mut u8, usize) {
    let v: Vec<u8> = Vec::with_capacity(cap);
    let mut v = ManuallyDrop::new(v);
    kani::assume(v.capacity() == cap);
    (v.as_mut_ptr(), cap)
}

pub fn any_view(cap: usize) -> (usize, usize) {
    let off: usize = kani::any();
    let len: usize = kani::any();
    kani::assume(off <= cap && len <= cap - off);
    (off, len)
}

/// `bytes::SHARED_VTABLE` handle (also the KIND_ARC state of the promotable vtables)
pub fn any_refcnt() -> usize {
    let k: usize = kani::any();
    kani::assume(k >= 1 && k <= usize::MAX >> 1);
    k
}

pub fn any_shared_on(buf: *mut u8, cap: usize, vtable: &'static Vtable, k: usize) -> (Bytes, Ghost) {
    let shared = Box::into_raw(Box::new(Shared { buf, cap, ref_cnt: AtomicUsize::new(k) }));
    let (off, len) = any_view(cap);
    let b = Bytes { ptr: unsafe { buf.add(off) }, len, data: AtomicPtr::new(shared as *mut ()), vtable };
    (b, Ghost { buf, cap, shared, k, off, len })
}

pub fn any_shared() -> (Bytes, Ghost) {
    let (buf, cap) = any_alloc();
    any_shared_on(buf, cap, &SHARED_VTABLE, any_refcnt())
}

/// which of the three vtables that can carry a KIND_ARC pointer
pub fn any_arc_vtable() -> &'static Vtable {
    let w: u8 = kani::any();
    if w == 0 { &SHARED_VTABLE } else if w == 1 { &PROMOTABLE_EVEN_VTABLE } else { &PROMOTABLE_ODD_VTABLE }
}

pub fn any_arc() -> (Bytes, Ghost) {
    let (buf, cap) = any_alloc();
    any_shared_on(buf, cap, any_arc_vtable(), any_refcnt())
}

/// sole handle: the count is the literal 1 so that CBMC prunes the shared-case branches
pub fn any_arc_unique() -> (Bytes, Ghost) {
    let (buf, cap) = any_alloc();
    any_shared_on(buf, cap, any_arc_vtable(), 1)
}

/// contract of `without_provenance` (bytes.rs): the result has the requested address.  CBMC's
/// (object, offset) pointer encoding cannot represent `null.wrapping_add(addr)` for an `addr`
/// that carries object bits, so harnesses that observe addresses of empty handles replace the
/// one-line function by this contract (listed as an assumption).
pub fn without_provenance_contract(ptr: usize) -> *const u8 {
    ptr as *const u8
}

/// promotable, KIND_VEC, even address: data = buf | 1; the view always ends at the allocation end
pub fn any_prom_even() -> (Bytes, Ghost) {
    let (buf, cap) = any_alloc();
    assert!(buf as usize & 1 == 0);
    let off: usize = kani::any();
    kani::assume(off <= cap);
    let len = cap - off;
    let data = ptr_map(buf, |a| a | KIND_VEC);
    let b = Bytes { ptr: unsafe { buf.add(off) }, len, data: AtomicPtr::new(data.cast()), vtable: &PROMOTABLE_EVEN_VTABLE };
    (b, Ghost { buf, cap, shared: core::ptr::null_mut(), k: 1, off, len })
}

/// promotable, KIND_VEC, odd address: the buffer is `base+1` inside a (cap+1)-byte block; its
/// deallocation is observed through the ledger stub (see `ledger_dealloc`)
pub fn any_prom_odd() -> (Bytes, Ghost) {
    let cap: usize = kani::any();
    kani::assume(cap >= 1 && cap < MAXCAP);
    let blk: Vec<u8> = Vec::with_capacity(cap + 1);
    let mut blk = ManuallyDrop::new(blk);
    let buf = unsafe { blk.as_mut_ptr().add(1) };
    assert!(buf as usize & 1 == 1);
    let off: usize = kani::any();
    kani::assume(off <= cap);
    let len = cap - off;
    let b = Bytes { ptr: unsafe { buf.add(off) }, len, data: AtomicPtr::new(buf.cast()), vtable: &PROMOTABLE_ODD_VTABLE };
    (b, Ghost { buf, cap, shared: core::ptr::null_mut(), k: 1, off, len })
}

// ---- allocator ledger (contract for the crate's two direct `dealloc` call sites) ------------
pub static mut LEDGER_PTR: usize = 0;
pub static mut LEDGER_SIZE: usize = 0;
pub static mut LEDGER_FREED: usize = 0;

pub unsafe fn ledger_expect(ptr: *mut u8, size: usize) {
    LEDGER_PTR = ptr as usize;
    LEDGER_SIZE = size;
    LEDGER_FREED = 0;
}

pub unsafe fn ledger_dealloc(ptr: *mut u8, layout: Layout) {
    assert!(ptr as usize == LEDGER_PTR, "dealloc: pointer is not the allocation base");
    assert!(layout.size() == LEDGER_SIZE, "dealloc: size differs from the allocated size");
    assert!(layout.align() == 1, "dealloc: alignment differs");
    LEDGER_FREED += 1;
}

pub fn ledger_freed() -> usize {
    unsafe { LEDGER_FREED }
}

// ---- predicates ---------------------------------------------------------------------------
pub fn is_vt(b: &Bytes, vt: &'static Vtable) -> bool {
    b.vtable as *const Vtable == vt as *const Vtable
}

pub fn refcnt(g: &Ghost) -> usize {
    unsafe { (*g.shared).ref_cnt.load(Ordering::Relaxed) }
}

/// handle `b` is a well-formed KIND_ARC view `(p, l)` of the buffer described by `g`
pub fn wf_arc(b: &Bytes, g: &Ghost, p: usize, l: usize) -> bool {
    b.data.load(Ordering::Relaxed) == g.shared as *mut ()
        && b.ptr as usize == p
        && b.len == l
        && p >= g.buf as usize
        && p - g.buf as usize <= g.cap
        && l <= g.cap - (p - g.buf as usize)
        && unsafe { (*g.shared).buf == g.buf && (*g.shared).cap == g.cap }
}

/// the empty static handle that split_off / split_to leave behind: address kept, owns nothing
pub fn is_empty_static_at(b: &Bytes, p: usize) -> bool {
    is_static(b) && b.len == 0 && b.ptr as usize == p
}

/// STATIC_VTABLE is a `const` (one promoted copy per use site), so it is recognised by its
/// function pointers rather than by address
pub fn is_static(b: &Bytes) -> bool {
    b.vtable.clone as usize == static_clone as usize
        && b.vtable.drop as usize == static_drop as usize
        && b.vtable.into_vec as usize == static_to_vec as usize
        && b.vtable.into_mut as usize == static_to_mut as usize
        && b.vtable.is_unique as usize == static_is_unique as usize
}

/// plant a symbolic byte at a symbolic index of the view and return (index, value): the
/// nondeterministic-witness idiom for "forall i. view[i] unchanged / equal"
pub fn plant(b: &Bytes) -> (usize, u8) {
    let i: usize = kani::any();
    let x: u8 = kani::any();
    if b.len > 0 {
        kani::assume(i < b.len);
        unsafe { *(b.ptr as *mut u8).add(i) = x };
    }
    (i, x)
}

/// (front offset, capacity of the Vec an inline-Vec BytesMut will rebuild): read from the private
/// fields through the bytes_mut overlay module
pub fn mvec_fields(m: &BytesMut) -> (usize, usize) {
    let (ptr, len, cap, data) = crate::bytes_mut::verif_m_wf::raw_parts(m);
    assert!(data & 1 == 1, "not the inline-Vec form");
    (data >> 5, cap + (data >> 5))
}
