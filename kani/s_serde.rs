// @parent src/serde.rs
// C15 (serde half, `--features serde`): every visitor entry point returns a value whose contents equal
// the input, and Serialize hands exactly the contents to `serialize_bytes`; the round trip is the
// composition of the two contracts.  Bounded: inputs of 0..=4 bytes (the visitors copy).
#![allow(unused_imports, unused_variables, unused_mut, dead_code)]
use super::*;
use serde::de::value::Error as DeError;
use serde::de::Visitor;

fn input() -> ([u8; 4], usize) {
    let a: [u8; 4] = kani::any();
    let n: usize = kani::any();
    kani::assume(n <= 4);
    (a, n)
}

// @ob props=C15 tier=quick kind=Kbounded bound="input of 0..=4 bytes" features=serde fns=BytesVisitor::visit_bytes,BytesVisitor::visit_byte_buf,BytesMutVisitor::visit_bytes,BytesMutVisitor::visit_byte_buf
#[kani::proof]
#[kani::unwind(6)]
fn kx_serde_visit_bytes_and_buf() {
    let (a, n) = input();
    let i: usize = kani::any();
    let which: u8 = kani::any();
    match which {
        0 => { let r: Result<Bytes, DeError> = BytesVisitor.visit_bytes(&a[..n]); let b = r.unwrap(); assert!(b.len() == n); if i < n { assert!(b[i] == a[i]); } core::mem::forget(b); }
        1 => { let r: Result<Bytes, DeError> = BytesVisitor.visit_byte_buf(a[..n].to_vec()); let b = r.unwrap(); assert!(b.len() == n); if i < n { assert!(b[i] == a[i]); } core::mem::forget(b); }
        2 => { let r: Result<BytesMut, DeError> = BytesMutVisitor.visit_bytes(&a[..n]); let b = r.unwrap(); assert!(b.len() == n); if i < n { assert!(b[i] == a[i]); } core::mem::forget(b); }
        _ => { let r: Result<BytesMut, DeError> = BytesMutVisitor.visit_byte_buf(a[..n].to_vec()); let b = r.unwrap(); assert!(b.len() == n); if i < n { assert!(b[i] == a[i]); } core::mem::forget(b); }
    }
}

// @ob props=C15 tier=quick kind=Kbounded bound="UTF-8 input of 0..=4 bytes (ASCII, or one 2-byte code point + ASCII)" features=serde fns=BytesVisitor::visit_str,BytesVisitor::visit_string,BytesMutVisitor::visit_str,BytesMutVisitor::visit_string
#[kani::proof]
#[kani::unwind(6)]
fn kx_serde_visit_str_and_string() {
    let (a, n) = input();
    // valid UTF-8: either all ASCII, or ONE two-byte code point (U+0080..U+07FF) followed by ASCII -
    // so that a change confusing chars with bytes is seen (seed C15-4)
    let two_byte = n >= 2 && a[0] >= 0xC2 && a[0] <= 0xDF && a[1] >= 0x80 && a[1] <= 0xBF;
    kani::assume((a[0] < 0x80 && a[1] < 0x80 || two_byte) && a[2] < 0x80 && a[3] < 0x80);
    let s: &str = unsafe { core::str::from_utf8_unchecked(&a[..n]) };
    kani::cover!(two_byte);
    let i: usize = kani::any();
    let which: u8 = kani::any();
    match which {
        0 => { let r: Result<Bytes, DeError> = BytesVisitor.visit_str(s); let b = r.unwrap(); assert!(b.len() == n); if i < n { assert!(b[i] == a[i]); } core::mem::forget(b); }
        1 => { let r: Result<Bytes, DeError> = BytesVisitor.visit_string(String::from(s)); let b = r.unwrap(); assert!(b.len() == n); if i < n { assert!(b[i] == a[i]); } core::mem::forget(b); }
        2 => { let r: Result<BytesMut, DeError> = BytesMutVisitor.visit_str(s); let b = r.unwrap(); assert!(b.len() == n); if i < n { assert!(b[i] == a[i]); } core::mem::forget(b); }
        _ => { let r: Result<BytesMut, DeError> = BytesMutVisitor.visit_string(String::from(s)); let b = r.unwrap(); assert!(b.len() == n); if i < n { assert!(b[i] == a[i]); } core::mem::forget(b); }
    }
}

/// minimal SeqAccess over an array; its size hint is whatever the solver likes (it is only a hint)
struct ArrSeq { data: [u8; 4], n: usize, i: usize }
impl<'de> serde::de::SeqAccess<'de> for ArrSeq {
    type Error = DeError;
    fn next_element_seed<T: serde::de::DeserializeSeed<'de>>(&mut self, seed: T) -> Result<Option<T::Value>, DeError> {
        use serde::de::IntoDeserializer;
        if self.i >= self.n { return Ok(None); }
        let v = self.data[self.i];
        self.i += 1;
        seed.deserialize(v.into_deserializer()).map(Some)
    }
    fn size_hint(&self) -> Option<usize> { if kani::any() { None } else { Some(kani::any()) } }
}

// @ob props=C15,C17 tier=quick kind=Kbounded bound="sequence of 0..=2 elements, arbitrary size hint" features=serde timeout=1800 fns=BytesVisitor::visit_seq,BytesMutVisitor::visit_seq
#[kani::proof]
#[kani::unwind(5)]
fn kx_serde_visit_seq() {
    let (a, n) = input();
    kani::assume(n <= 2);
    let i: usize = kani::any();
    let seq = ArrSeq { data: a, n, i: 0 };
    if kani::any() {
        let b: Bytes = BytesVisitor.visit_seq(seq).unwrap();
        assert!(b.len() == n);
        if i < n { assert!(b[i] == a[i]); }
        core::mem::forget(b);
    } else {
        let b: BytesMut = BytesMutVisitor.visit_seq(seq).unwrap();
        assert!(b.len() == n);
        if i < n { assert!(b[i] == a[i]); }
        core::mem::forget(b);
    }
}

/// serializer that accepts only `serialize_bytes` and records what it was given
struct Capture<'a> { out: &'a mut [u8; 4], n: &'a mut usize }
macro_rules! nope { ($($f:ident($($t:ty),*)),* $(,)?) => { $(fn $f(self, $(_: $t),*) -> Result<(), DeError> { Err(serde::ser::Error::custom("unexpected")) })* } }
impl<'a> Serializer for Capture<'a> {
    type Ok = ();
    type Error = DeError;
    type SerializeSeq = serde::ser::Impossible<(), DeError>;
    type SerializeTuple = serde::ser::Impossible<(), DeError>;
    type SerializeTupleStruct = serde::ser::Impossible<(), DeError>;
    type SerializeTupleVariant = serde::ser::Impossible<(), DeError>;
    type SerializeMap = serde::ser::Impossible<(), DeError>;
    type SerializeStruct = serde::ser::Impossible<(), DeError>;
    type SerializeStructVariant = serde::ser::Impossible<(), DeError>;
    fn serialize_bytes(self, v: &[u8]) -> Result<(), DeError> {
        assert!(v.len() <= 4);
        *self.n = v.len();
        let mut i = 0;
        while i < v.len() { self.out[i] = v[i]; i += 1; }
        Ok(())
    }
    nope!(serialize_bool(bool), serialize_i8(i8), serialize_i16(i16), serialize_i32(i32), serialize_i64(i64),
          serialize_u8(u8), serialize_u16(u16), serialize_u32(u32), serialize_u64(u64), serialize_f32(f32), serialize_f64(f64),
          serialize_char(char), serialize_str(&str), serialize_none(), serialize_unit(), serialize_unit_struct(&'static str),
          serialize_unit_variant(&'static str, u32, &'static str));
    fn serialize_some<T: ?Sized + Serialize>(self, _: &T) -> Result<(), DeError> { Err(serde::ser::Error::custom("unexpected")) }
    fn serialize_newtype_struct<T: ?Sized + Serialize>(self, _: &'static str, _: &T) -> Result<(), DeError> { Err(serde::ser::Error::custom("unexpected")) }
    fn serialize_newtype_variant<T: ?Sized + Serialize>(self, _: &'static str, _: u32, _: &'static str, _: &T) -> Result<(), DeError> { Err(serde::ser::Error::custom("unexpected")) }
    fn serialize_seq(self, _: Option<usize>) -> Result<Self::SerializeSeq, DeError> { Err(serde::ser::Error::custom("unexpected")) }
    fn serialize_tuple(self, _: usize) -> Result<Self::SerializeTuple, DeError> { Err(serde::ser::Error::custom("unexpected")) }
    fn serialize_tuple_struct(self, _: &'static str, _: usize) -> Result<Self::SerializeTupleStruct, DeError> { Err(serde::ser::Error::custom("unexpected")) }
    fn serialize_tuple_variant(self, _: &'static str, _: u32, _: &'static str, _: usize) -> Result<Self::SerializeTupleVariant, DeError> { Err(serde::ser::Error::custom("unexpected")) }
    fn serialize_map(self, _: Option<usize>) -> Result<Self::SerializeMap, DeError> { Err(serde::ser::Error::custom("unexpected")) }
    fn serialize_struct(self, _: &'static str, _: usize) -> Result<Self::SerializeStruct, DeError> { Err(serde::ser::Error::custom("unexpected")) }
    fn serialize_struct_variant(self, _: &'static str, _: u32, _: &'static str, _: usize) -> Result<Self::SerializeStructVariant, DeError> { Err(serde::ser::Error::custom("unexpected")) }
}

// @ob props=C15 tier=quick kind=Kbounded bound="contents of 0..=4 bytes" features=serde fns=Serialize_for_Bytes::serialize,Serialize_for_BytesMut::serialize
#[kani::proof]
#[kani::unwind(6)]
fn kx_serde_serialize() {
    let (a, n) = input();
    let st: &'static [u8; 4] = unsafe { &*(&a as *const [u8; 4]) };
    let mut out = [0u8; 4];
    let mut got = 0usize;
    let r = if kani::any() {
        Bytes::from_static(&st[..n]).serialize(Capture { out: &mut out, n: &mut got })
    } else {
        let m = BytesMut::from(&a[..n]);
        let r = m.serialize(Capture { out: &mut out, n: &mut got });
        core::mem::forget(m);
        r
    };
    assert!(r.is_ok() && got == n);
    let i: usize = kani::any();
    if i < n { assert!(out[i] == a[i]); }
}
