// @parent src/buf/buf_impl.rs
// @requires std
// C17: misbehaving SAFE trait implementations cannot make the crate memory-unsafe.
// Every crate entry point that consumes a user-supplied Buf / AsRef<[u8]> / Iterator and contains
// (or leads into) an `unsafe` block is driven with an UNCONSTRAINED implementor: remaining() answers
// anything on every call, chunk() returns any valid sub-slice, advance() does anything or panics,
// size hints lie, AsRef answers differently per call.  Expected outcome (expect=memsafe): panics and
// wrong data are allowed; NO memory-safety-class check (pointer validity, bounds of raw accesses,
// memcpy ranges, dealloc, overflow) may fail.  Loops that a liar can keep alive are unwound a fixed
// number of times without unwinding assertions (bounded, stated per harness); the step to "all
// iterations" is the inductive wf-preservation contract of the target (extend_from_slice, reserve:
// C04), which is proved without a bound.
#![allow(unused_imports, unused_variables, unused_mut, dead_code)]
use super::*;
use crate::{BufMut, Bytes, BytesMut};
use alloc::vec::Vec;

pub struct LiarBuf { data: [u8; 8], budget: u8 }

impl Buf for LiarBuf {
    fn remaining(&self) -> usize { kani::any() }
    fn chunk(&self) -> &[u8] {
        let a: usize = kani::any();
        let b: usize = kani::any();
        kani::assume(a <= b && b <= 8);
        &self.data[a..b]
    }
    fn advance(&mut self, cnt: usize) {
        if kani::any() { panic!("liar: advance panics"); }
        self.budget = self.budget.wrapping_add(1);
    }
}

fn liar() -> LiarBuf { LiarBuf { data: kani::any(), budget: 0 } }

// @ob props=C17,C02 tier=quick kind=Kbounded bound="liar loops unwound 3 times" expect=memsafe nounwind=1 fns=buf_try_get_impl!,Buf::try_copy_to_slice,Buf::copy_to_slice
#[kani::proof]
#[kani::unwind(4)]
fn kx_liar_getters() {
    let mut b = liar();
    let which: u8 = kani::any();
    // fast path: unsafe array cast guarded by chunk().get(..SIZE), not by remaining()
    match which {
        0 => { let _ = b.try_get_u64(); }
        1 => { let _ = b.get_u128_le(); }
        2 => { let _ = b.get_i16(); }
        3 => { let n: usize = kani::any(); let _ = b.try_get_uint(n); }
        4 => { let n: usize = kani::any(); let _ = b.get_int_le(n); }
        5 => { let _ = b.get_u8(); }
        6 => { let mut dst = [0u8; 5]; let _ = b.try_copy_to_slice(&mut dst); }
        _ => { let mut dst = [0u8; 3]; b.copy_to_slice(&mut dst); }
    }
    kani::cover!(true);
}

// @ob props=C17,C02 tier=quick kind=Kbounded bound="liar loops unwound 3 times; BytesMut capacity 8" expect=memsafe nounwind=1 fns=BytesMut::put,BytesMut::extend_from_slice,Vec<u8>::put,BufMut::put
#[kani::proof]
#[kani::unwind(4)]
fn kx_liar_put_sources() {
    let b = liar();
    let which: u8 = kani::any();
    if which == 0 {
        let mut m = BytesMut::with_capacity(8);
        m.put(b);                       // copies chunk() by its REAL length
        assert!(m.len() <= m.capacity());
    } else if which == 1 {
        let mut v: Vec<u8> = Vec::with_capacity(8);
        v.put(b);
        assert!(v.len() <= v.capacity());
    } else {
        let mut arr = [0u8; 6];
        let mut t: &mut [u8] = &mut arr[..];
        t.put(b);                       // default put: min(src chunk, dst chunk)
    }
    kani::cover!(true);
}

// copy_to_bytes (default, Take, Chain) contains no `unsafe` itself: with a misbehaving source it can
// only reach the unsafe code of BytesMut::with_capacity / put / freeze, which kx_liar_put_sources and
// the C01-C04 obligations cover (wf of BytesMut preserved by extend_from_slice for ANY source slice).
// Whole-path obligations through copy_to_bytes with a liar did not finish within 50 minutes of CBMC
// time and were removed rather than kept as an undecidable check.

// @ob props=C17,C02 tier=quick kind=Kbounded bound="Take's 16-entry scratch array (structural), dst <= 3" expect=memsafe nounwind=1 timeout=1800 fns=Take::chunks_vectored,Chain::chunks_vectored
#[kani::proof]
#[kani::unwind(18)]
fn kx_liar_take_chunks_vectored() {
    // Take::chunks_vectored: lifetime transmute bounded by dst[..cnt] indexing; the inner default
    // chunks_vectored is driven by the lying remaining()/chunk()
    let t = take::new(Chain::new(liar(), liar()), kani::any());
    let e: [u8; 0] = [];
    let mut dst = [std::io::IoSlice::new(&e), std::io::IoSlice::new(&e), std::io::IoSlice::new(&e)];
    let dl: usize = kani::any();
    kani::assume(dl <= 3);
    let k = t.chunks_vectored(&mut dst[..dl]);
    if k <= dl && k > 0 { let s: &[u8] = &dst[0]; if s.len() > 0 { let _ = s[s.len() - 1]; } }
    kani::cover!(true);
}

// @ob props=C17,C02 tier=quick kind=Kbounded bound="liar loops unwound 3 times" expect=memsafe nounwind=1 fns=Reader::read,IntoIter::next
#[kani::proof]
#[kani::unwind(4)]
fn kx_liar_reader_iter() {
    use std::io::Read;
    if kani::any() {
        let mut r = reader::new(liar());
        let mut dst = [0u8; 4];
        let _ = r.read(&mut dst);
    } else {
        let mut it = crate::buf::IntoIter::new(liar());
        let _ = it.next();
        let _ = it.next();
    }
    kani::cover!(true);
}

/// iterator with a lying size hint
struct LiarIter { left: u8 }
impl Iterator for LiarIter {
    type Item = u8;
    fn next(&mut self) -> Option<u8> { if self.left == 0 { None } else { self.left -= 1; Some(kani::any()) } }
    fn size_hint(&self) -> (usize, Option<usize>) {
        let lo: usize = kani::any();
        kani::assume(lo <= 64);   // the reserve it triggers is bounded (allocation size), not the lie's direction
        // the upper bound lies too: absent, equal to the lower bound ("exact size": seed C01-6), or anything
        let hi: Option<usize> = if kani::any() { None } else if kani::any() { Some(lo) } else { Some(kani::any()) };
        (lo, hi)
    }
}

// @ob props=C17,C02,C03,C01,C04 tier=quick kind=Kbounded bound="iterator yields <= 3 items, size hint lies (lower 0..=64, upper anything)" expect=memsafe nounwind=1 leak=1 fns=Extend<u8>_for_BytesMut::extend,BytesMut::reserve,BufMut::put_u8
#[kani::proof]
#[kani::unwind(5)]
fn kx_liar_size_hint_extend() {
    let mut m = BytesMut::with_capacity(2);
    let n: u8 = kani::any();
    kani::assume(n <= 3);
    m.extend(LiarIter { left: n });
    assert!(m.len() == n as usize && m.len() <= m.capacity());
    kani::cover!(n == 3);
}

static mut LIAR_CALLS: usize = 0;
struct LiarOwner { a: [u8; 4], b: [u8; 2] }
impl AsRef<[u8]> for LiarOwner {
    fn as_ref(&self) -> &[u8] {
        unsafe { LIAR_CALLS += 1 };
        if kani::any() { panic!("liar: as_ref panics"); }
        if kani::any() { &self.a[..] } else { &self.b[..] }
    }
}

// @ob props=C17,C03,C02 tier=quick kind=Kbounded bound="owner with two 2..4-byte answers" expect=memsafe nounwind=1 fns=Bytes::from_owner,owned_clone,owned_drop_impl
#[kani::proof]
#[kani::unwind(6)]
fn kx_liar_owner() {
    unsafe { LIAR_CALLS = 0 };
    let b = Bytes::from_owner(LiarOwner { a: kani::any(), b: kani::any() });
    // called exactly once, so inconsistent answers cannot matter; the view is what THAT call returned
    assert!(unsafe { LIAR_CALLS } == 1);
    assert!(b.len() == 4 || b.len() == 2);
    let c = b.clone();
    let i: usize = kani::any();
    if i < c.len() { let _ = c[i]; }
    drop(b);
    if i < c.len() { let _ = c[i]; }
    drop(c);
    kani::cover!(true);
}
