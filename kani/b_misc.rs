// @parent src/bytes.rs
// Contracts for the static and owner-backed representations, the constructors, and as_slice.
#![allow(unused_imports, unused_variables, unused_mut)]
use super::verif_b_wf::*;
use super::*;

static STATIC_DATA: [u8; 16] = [0, 1, 2, 3, 4, 5, 6, 7, 8, 9, 10, 11, 12, 13, 14, 15];

pub fn any_static() -> (Bytes, usize, usize) {
    let off: usize = kani::any();
    let len: usize = kani::any();
    kani::assume(off <= 16 && len <= 16 - off);
    (Bytes::from_static(&STATIC_DATA[off..off + len]), off, len)
}

// @ob props=C01,C07,C08,C03 tier=quick kind=Kinf fns=Bytes::from_static,Bytes::new,static_clone,static_is_unique,static_drop,Bytes::as_slice,Bytes::len,Bytes::is_empty
#[kani::proof]
fn kx_static_basics() {
    let (b, off, len) = any_static();
    let p = STATIC_DATA.as_ptr() as usize + off;
    assert!(is_static(&b) && b.ptr as usize == p && b.len == len && b.len() == len && b.is_empty() == (len == 0));
    assert!(!b.is_unique());
    let c = b.clone();
    assert!(is_static(&c) && c.ptr as usize == p && c.len == len);
    let i: usize = kani::any();
    if i < len { assert!(c.as_slice()[i] == (off + i) as u8 && b[i] == (off + i) as u8); }
    let e = Bytes::new();
    assert!(is_static(&e) && e.len == 0 && !e.is_unique());
    drop(c);
    drop(b);
    drop(e);
}

// @ob props=C01,C07,C13 tier=quick kind=Kinf fns=Bytes::slice,Bytes::split_off,Bytes::split_to,Bytes::truncate,Bytes::advance,static_clone
#[kani::proof]
#[kani::stub(without_provenance, without_provenance_contract)]
fn kx_static_views() {
    let (mut b, off, len) = any_static();
    let p = STATIC_DATA.as_ptr() as usize + off;
    let a: usize = kani::any();
    let z: usize = kani::any();
    let op: u8 = kani::any();
    let i: usize = kani::any();
    if op == 0 {
        kani::assume(a <= z && z <= len);
        let s = b.slice(a..z);
        assert!(is_static(&s) && s.len == z - a && (a == z || s.ptr as usize == p + a));
        if i < z - a { assert!(s[i] == (off + a + i) as u8); }
    } else if op == 1 {
        kani::assume(a <= len);
        let r = b.split_off(a);
        assert!(is_static(&r) && is_static(&b) && b.ptr as usize == p && b.len == a && r.ptr as usize == p + a && r.len == len - a);
        if i < len - a { assert!(r[i] == (off + a + i) as u8); }
    } else if op == 2 {
        kani::assume(a <= len);
        let r = b.split_to(a);
        assert!(is_static(&r) && is_static(&b) && r.ptr as usize == p && r.len == a && b.ptr as usize == p + a && b.len == len - a);
        if i < a { assert!(r[i] == (off + i) as u8); }
    } else if op == 3 {
        b.truncate(a);
        assert!(is_static(&b) && b.ptr as usize == p && b.len == if a < len { a } else { len });
    } else {
        kani::assume(a <= len);
        Buf::advance(&mut b, a);
        assert!(is_static(&b) && b.ptr as usize == p + a && b.len == len - a);
    }
}

// ---- owner-backed ---------------------------------------------------------------------------
static mut AS_REF_CALLS: usize = 0;
static mut OWNER_DROPS: usize = 0;
static mut BLOCK_AT_AS_REF: usize = 0;

/// instrumented owner: ghost counters for `as_ref` calls and drops
struct Owner {
    buf: [u8; 8],
    lo: usize,
    hi: usize,
}
impl AsRef<[u8]> for Owner {
    fn as_ref(&self) -> &[u8] {
        unsafe { AS_REF_CALLS += 1 };
        &self.buf[self.lo..self.hi]
    }
}
impl Drop for Owner {
    fn drop(&mut self) {
        unsafe { OWNER_DROPS += 1 };
    }
}

fn any_owner() -> Owner {
    let o = Owner { buf: kani::any(), lo: kani::any(), hi: kani::any() };
    kani::assume(o.lo <= o.hi && o.hi <= 8);
    o
}

fn owned_cnt(b: &Bytes) -> usize {
    unsafe { (*(b.data.load(Ordering::Relaxed) as *mut OwnedLifetime)).ref_cnt.load(Ordering::Relaxed) }
}

// @ob props=C03,C01,C07,C08,C02 tier=quick kind=Kinf leak=1 fns=Bytes::from_owner,owned_clone,owned_drop,owned_drop_impl,owned_box_and_drop,owned_is_unique
#[kani::proof]
fn kx_owned_lifecycle() {
    unsafe { AS_REF_CALLS = 0; OWNER_DROPS = 0; }
    let o = any_owner();
    let (lo, hi, byte0) = (o.lo, o.hi, o.buf[o.lo.min(7)]);
    let b = Bytes::from_owner(o);
    // as_ref exactly once, on the owner already moved into its heap block; view = that slice
    assert!(unsafe { AS_REF_CALLS } == 1 && unsafe { OWNER_DROPS } == 0);
    assert!(b.len == hi - lo && owned_cnt(&b) == 1 && !b.is_unique());
    let blk = b.data.load(Ordering::Relaxed) as *mut Owned<Owner>;
    assert!(b.ptr as usize == unsafe { (*blk).owner.buf.as_ptr() as usize } + lo);
    if hi > lo { assert!(b[0] == byte0); }
    let c = b.clone();
    assert!(owned_cnt(&b) == 2 && c.ptr as usize == b.ptr as usize && c.len == b.len);
    assert!(c.data.load(Ordering::Relaxed) == b.data.load(Ordering::Relaxed));
    // any drop order: owner dropped exactly once, with the last view
    if kani::any() {
        drop(b);
        assert!(unsafe { OWNER_DROPS } == 0 && owned_cnt(&c) == 1);
        drop(c);
    } else {
        drop(c);
        assert!(unsafe { OWNER_DROPS } == 0 && owned_cnt(&b) == 1);
        drop(b);
    }
    assert!(unsafe { OWNER_DROPS } == 1 && unsafe { AS_REF_CALLS } == 1);
}

// @ob props=C03,C01,C07 tier=quick kind=Kinf leak=1 fns=Bytes::slice,Bytes::split_off,Bytes::truncate,owned_clone,owned_drop_impl
#[kani::proof]
#[kani::stub(without_provenance, without_provenance_contract)]
fn kx_owned_views() {
    unsafe { AS_REF_CALLS = 0; OWNER_DROPS = 0; }
    let o = any_owner();
    let mut b = Bytes::from_owner(o);
    let (p, len) = (b.ptr as usize, b.len);
    let at: usize = kani::any();
    kani::assume(at <= len);
    let r = b.split_off(at);
    assert!(b.ptr as usize == p && b.len == at && r.ptr as usize == p + at && r.len == len - at);
    if at > 0 && at < len { assert!(owned_cnt(&b) == 2); }
    let n: usize = kani::any();
    b.truncate(n);
    assert!(b.len == if n < at { n } else { at } && b.ptr as usize == p);
    drop(b);
    drop(r);
    assert!(unsafe { OWNER_DROPS } == 1 && unsafe { AS_REF_CALLS } == 1);
}

// @ob props=C03,C01 tier=quick kind=Kbounded bound="owner buffer of 8 bytes" leak=1 fns=owned_to_vec,owned_to_mut,owned_drop_impl
#[kani::proof]
#[kani::unwind(10)]
fn kx_owned_into_vec_and_mut() {
    unsafe { AS_REF_CALLS = 0; OWNER_DROPS = 0; }
    let o = any_owner();
    let (lo, hi) = (o.lo, o.hi);
    let data = o.buf;
    let b = Bytes::from_owner(o);
    let c = b.clone();
    let i: usize = kani::any();
    let v: Vec<u8> = b.into();      // copy; one reference given up
    assert!(v.len() == hi - lo && unsafe { OWNER_DROPS } == 0 && owned_cnt(&c) == 1);
    if i < hi - lo { assert!(v[i] == data[lo + i]); }
    let m: BytesMut = c.into();     // copy; last reference: owner dropped exactly now
    assert!(m.len() == hi - lo && unsafe { OWNER_DROPS } == 1);
    if i < hi - lo { assert!(m[i] == data[lo + i]); }
    drop(v);
    drop(m);
    assert!(unsafe { OWNER_DROPS } == 1 && unsafe { AS_REF_CALLS } == 1);
}

// ---- constructors ---------------------------------------------------------------------------

// @ob props=C01,C07,C03,C16 tier=quick kind=Kinf fns=From<Vec<u8>>for_Bytes
#[kani::proof]
fn kx_from_vec_spare_capacity() {
    // len < cap: control block {buf, cap, 1}; the Vec's allocation is adopted, not copied
    let (buf, cap) = any_alloc();
    let len: usize = kani::any();
    kani::assume(len < cap);
    let v = unsafe { Vec::from_raw_parts(buf, len, cap) };
    let b = Bytes::from(v);
    assert!(is_vt(&b, &SHARED_VTABLE) && b.ptr as usize == buf as usize && b.len == len);
    let g = Ghost { buf, cap, shared: b.data.load(Ordering::Relaxed) as *mut Shared, k: 1, off: 0, len };
    assert!(refcnt(&g) == 1 && wf_arc(&b, &g, buf as usize, len));
    core::mem::forget(b);
}

// @ob props=C01,C07,C16 tier=quick kind=Kinf fns=From<Box<[u8]>>for_Bytes,ptr_map
#[kani::proof]
fn kx_from_box_even() {
    let (buf, cap) = any_alloc();
    let bx: Box<[u8]> = unsafe { Box::from_raw(core::ptr::slice_from_raw_parts_mut(buf, cap)) };
    let b = Bytes::from(bx);
    assert!(is_vt(&b, &PROMOTABLE_EVEN_VTABLE) && b.ptr as usize == buf as usize && b.len == cap);
    assert!(b.data.load(Ordering::Relaxed) as usize == buf as usize | KIND_VEC);
    core::mem::forget(b);
}

// @ob props=C01,C07,C16 tier=quick kind=Kinf fns=From<Box<[u8]>>for_Bytes
#[kani::proof]
fn kx_from_box_odd() {
    let cap: usize = kani::any();
    kani::assume(cap >= 1 && cap < MAXCAP);
    let blk: Vec<u8> = Vec::with_capacity(cap + 1);
    let mut blk = ManuallyDrop::new(blk);
    let buf = unsafe { blk.as_mut_ptr().add(1) };
    let bx: Box<[u8]> = unsafe { Box::from_raw(core::ptr::slice_from_raw_parts_mut(buf, cap)) };
    let b = Bytes::from(bx);
    assert!(is_vt(&b, &PROMOTABLE_ODD_VTABLE) && b.ptr as usize == buf as usize && b.len == cap);
    assert!(b.data.load(Ordering::Relaxed) as usize == buf as usize);
    core::mem::forget(b);
}

// @ob props=C01,C16 tier=quick kind=Kinf fns=From<Box<[u8]>>for_Bytes
#[kani::proof]
fn kx_from_box_empty() {
    let bx: Box<[u8]> = Box::new([]);
    let b = Bytes::from(bx);
    assert!(is_static(&b) && b.len == 0);
}

// @ob props=C16,C02 tier=quick kind=Kinf fns=ptr_map,KIND_MASK
#[kani::proof]
fn kx_tag_arithmetic() {
    // the tagged-pointer algebra behind the even/odd split, for every address
    let a: usize = kani::any();
    if a & 1 == 0 {
        assert!((a | KIND_VEC) & KIND_MASK == KIND_VEC);
        assert!((a | KIND_VEC) & !KIND_MASK == a);
        assert!(a & KIND_MASK == KIND_ARC);
    } else {
        assert!(a & KIND_MASK == KIND_VEC);
    }
}

// @ob props=C01,C07 tier=quick kind=Kbounded bound="source length <= 8" fns=Bytes::copy_from_slice,From<Vec<u8>>for_Bytes
#[kani::proof]
#[kani::unwind(10)]
#[kani::stub(release_shared, unreachable_release_misc)]
fn kx_copy_from_slice() {
    let src: [u8; 8] = kani::any();
    let n: usize = kani::any();
    kani::assume(n <= 8);
    let b = Bytes::copy_from_slice(&src[..n]);
    assert!(b.len == n);
    let i: usize = kani::any();
    if i < n { assert!(b[i] == src[i]); }
    if n > 0 { assert!(!kani::mem::same_allocation(b.ptr, src.as_ptr())); }
    core::mem::forget(b);
}

unsafe fn unreachable_release_misc(ptr: *mut Shared) {
    assert!(false, "KIND_ARC arm reached from a freshly built handle");
}

// @ob props=C03,C01 tier=quick kind=Kbounded bound="owner buffer of 8 bytes" leak=1 fns=owned_to_mut,owned_to_vec,owned_drop_impl
#[kani::proof]
#[kani::unwind(10)]
fn kx_owned_to_mut_keeps_owner_for_other_views() {
    // converting ONE view into BytesMut / Vec<u8> while another view is alive copies and gives up
    // one reference: the owner must stay alive until the last view goes
    unsafe { AS_REF_CALLS = 0; OWNER_DROPS = 0; }
    let o = any_owner();
    let (lo, hi) = (o.lo, o.hi);
    let data = o.buf;
    let b = Bytes::from_owner(o);
    let c = b.clone();
    let i: usize = kani::any();
    if kani::any() {
        let m: BytesMut = b.into();
        assert!(m.len() == hi - lo);
        if i < hi - lo { assert!(m[i] == data[lo + i]); }
        drop(m);
    } else {
        let v: Vec<u8> = b.into();
        assert!(v.len() == hi - lo);
        drop(v);
    }
    assert!(unsafe { OWNER_DROPS } == 0 && owned_cnt(&c) == 1);
    if i < hi - lo { assert!(c[i] == data[lo + i]); }
    drop(c);
    assert!(unsafe { OWNER_DROPS } == 1);
}

// @ob props=C01,C14,C09 tier=quick kind=Kinf fns=Bytes::as_slice,Deref_for_Bytes::deref,AsRef<[u8]>_for_Bytes::as_ref,Borrow<[u8]>_for_Bytes::borrow,Bytes::len,Bytes::is_empty,Buf_for_Bytes::chunk,Buf_for_Bytes::remaining
#[kani::proof]
fn kx_bytes_as_slice_is_the_view() {
    // the contract every Verus unit imports for Bytes: all slice accessors return exactly (ptr, len)
    let (b, g) = any_arc();
    let p = g.buf as usize + g.off;
    let s = b.as_slice();
    assert!(s.as_ptr() as usize == p && s.len() == g.len);
    let d: &[u8] = &b;
    let a: &[u8] = b.as_ref();
    let w: &[u8] = core::borrow::Borrow::borrow(&b);
    let c: &[u8] = Buf::chunk(&b);
    assert!(d.as_ptr() as usize == p && d.len() == g.len && a.as_ptr() as usize == p && a.len() == g.len);
    assert!(w.as_ptr() as usize == p && w.len() == g.len && c.as_ptr() as usize == p && c.len() == g.len);
    assert!(b.len() == g.len && b.is_empty() == (g.len == 0) && Buf::remaining(&b) == g.len);
    core::mem::forget(b);
}

// @ob props=C01,C07 tier=quick kind=Kbounded bound="inputs of <= 4 bytes" fns=From<String>for_Bytes,From<&'static_str>for_Bytes,From<&'static[u8]>for_Bytes,FromIterator<u8>for_Bytes,Default_for_Bytes,IntoIterator_for_&Bytes
#[kani::proof]
#[kani::unwind(6)]
#[kani::stub(release_shared, unreachable_release_misc)]
fn kx_bytes_trivial_constructors() {
    let src: [u8; 4] = kani::any();
    kani::assume(src[0] < 0x80 && src[1] < 0x80 && src[2] < 0x80 && src[3] < 0x80);
    let n: usize = kani::any();
    kani::assume(n <= 4);
    let st: &'static [u8; 4] = unsafe { &*(&src as *const [u8; 4]) };
    let s: &'static str = unsafe { core::str::from_utf8_unchecked(&st[..n]) };
    let i: usize = kani::any();
    let which: u8 = kani::any();
    let b = match which {
        0 => { let b = Bytes::from(s); assert!(is_static(&b) && b.ptr as usize == st.as_ptr() as usize); b }
        1 => { let b = Bytes::from(&st[..n]); assert!(is_static(&b) && b.ptr as usize == st.as_ptr() as usize); b }
        2 => Bytes::from(String::from(s)),
        3 => { let b = Bytes::default(); assert!(b.len == 0); core::mem::forget(b); return; }
        _ => src[..n].iter().copied().collect::<Bytes>(),
    };
    assert!(b.len == n);
    if i < n { assert!(b[i] == src[i]); }
    core::mem::forget(b);
}
