// @parent src/bytes.rs
// C13 for Bytes: out-of-contract arguments reach exactly the documented panic, and nothing is
// written before it.  Each wrapper carries the NEGATED argument contract:
//   requires(bad argument)  modifies()  ensures(false)
// `proof_for_contract` then reports: the documented assertion FAILS (expected), any write before
// it fails the empty assigns clause, a normal return fails `ensures(false)`, and every
// memory-safety / overflow check must pass.
#![allow(unused_imports, unused_variables, unused_mut)]
use super::verif_b_wf::*;
use super::*;

#[kani::requires(at > b.len)]
#[kani::modifies()]
#[kani::ensures(|_r| false)]
fn split_off_oob(b: &mut Bytes, at: usize) -> Bytes { b.split_off(at) }

#[kani::requires(at > b.len)]
#[kani::modifies()]
#[kani::ensures(|_r| false)]
fn split_to_oob(b: &mut Bytes, at: usize) -> Bytes { b.split_to(at) }

#[kani::requires(n > b.len)]
#[kani::modifies()]
#[kani::ensures(|_r| false)]
fn advance_oob(b: &mut Bytes, n: usize) { Buf::advance(b, n) }

#[kani::requires(lo > hi || hi > b.len)]
#[kani::modifies()]
#[kani::ensures(|_r| false)]
fn slice_oob(b: &Bytes, lo: usize, hi: usize) -> Bytes { b.slice(lo..hi) }

// @ob props=C13,C02 tier=thorough kind=Kinf expect="panic:Bytes::split_off$" fns=Bytes::split_off timeout=1200
#[kani::proof_for_contract(split_off_oob)]
fn kx_panic_split_off() {
    let (mut b, g) = any_arc();
    let at: usize = kani::any();
    let _ = split_off_oob(&mut b, at);
}

// @ob props=C13,C02 tier=thorough kind=Kinf expect="panic:Bytes::split_to$" fns=Bytes::split_to timeout=1200
#[kani::proof_for_contract(split_to_oob)]
fn kx_panic_split_to() {
    let (mut b, g) = any_arc();
    let at: usize = kani::any();
    let _ = split_to_oob(&mut b, at);
}

// @ob props=C13,C02,C09 tier=thorough kind=Kinf expect="panic:Bytes as .*Buf>::advance$" fns=Bytes::advance timeout=1200
#[kani::proof_for_contract(advance_oob)]
fn kx_panic_advance() {
    let (mut b, g) = any_arc();
    let n: usize = kani::any();
    advance_oob(&mut b, n);
}

// @ob props=C13,C02 tier=thorough kind=Kinf expect="panic:Bytes::slice" fns=Bytes::slice timeout=1200
#[kani::proof_for_contract(slice_oob)]
fn kx_panic_slice() {
    let (b, g) = any_arc();
    let lo: usize = kani::any();
    let hi: usize = kani::any();
    let _ = slice_oob(&b, lo, hi);
}

// @ob props=C13,C02 tier=quick kind=Kinf expect="panic:(Bytes::slice|expect_failed$)" fns=Bytes::slice
#[kani::proof]
fn kx_panic_slice_inclusive_overflow() {
    // `..=usize::MAX` and `(Excluded(usize::MAX), ..)`: the checked_add(1).expect("out of range") sites
    let (b, g) = any_arc();
    if kani::any() {
        let lo: usize = kani::any();
        let _ = b.slice(lo..=usize::MAX);
    } else {
        use core::ops::Bound;
        let _ = b.slice((Bound::Excluded(usize::MAX), Bound::Unbounded));
    }
    assert!(false, "slice returned for an unrepresentable bound");
}

// @ob props=C13,C02 tier=quick kind=Kinf expect="panic:Bytes::slice_ref$" fns=Bytes::slice_ref
#[kani::proof]
fn kx_panic_slice_ref_foreign() {
    // a non-empty slice that does not lie inside the handle's view: before, after, straddling,
    // or in a different allocation altogether
    let (b, g) = any_arc();
    let foreign: [u8; 4] = kani::any();
    let which: u8 = kani::any();
    let sub: &[u8] = if which == 0 {
        &foreign[..]
    } else {
        // same allocation, but not within [ptr, ptr+len)
        let o: usize = kani::any();
        let l: usize = kani::any();
        kani::assume(l >= 1 && o <= g.cap && l <= g.cap - o);
        kani::assume(o < g.off || o + l > g.off + g.len);
        unsafe { slice::from_raw_parts(g.buf.add(o), l) }
    };
    let k0 = refcnt(&g);
    let _ = b.slice_ref(sub);
    assert!(false, "slice_ref accepted a slice outside the handle");
}

// ---- quick frame obligations: the same wrappers on the STATIC representation (no heap object, so
// proof_for_contract is cheap).  The code before the documented panic of these four operations
// does not look at the representation, so "nothing written before the panic" is decided here on
// every change; the thorough tier repeats it on the shared representations.  The expected panic
// may sit in any of the four operations (a bounds check delegated to a sibling is not a defect).

// @ob props=C13,C02 tier=quick kind=Kinf expect="panic:(Bytes::split_off|Bytes::split_to|Bytes as .*Buf>::advance|Bytes::slice(::<.*>)?)$" fns=Bytes::split_off timeout=900
#[kani::proof_for_contract(split_off_oob)]
fn kx_panic_split_off_frame_static() {
    let (mut b, off, len) = super::verif_b_misc::any_static();
    let at: usize = kani::any();
    let _ = split_off_oob(&mut b, at);
}

// @ob props=C13,C02 tier=quick kind=Kinf expect="panic:(Bytes::split_off|Bytes::split_to|Bytes as .*Buf>::advance|Bytes::slice(::<.*>)?)$" fns=Bytes::split_to timeout=900
#[kani::proof_for_contract(split_to_oob)]
fn kx_panic_split_to_frame_static() {
    let (mut b, off, len) = super::verif_b_misc::any_static();
    let at: usize = kani::any();
    let _ = split_to_oob(&mut b, at);
}

// @ob props=C13,C02,C09 tier=quick kind=Kinf expect="panic:(Bytes::split_off|Bytes::split_to|Bytes as .*Buf>::advance|Bytes::slice(::<.*>)?)$" fns=Bytes::advance timeout=900
#[kani::proof_for_contract(advance_oob)]
fn kx_panic_advance_frame_static() {
    let (mut b, off, len) = super::verif_b_misc::any_static();
    let n: usize = kani::any();
    advance_oob(&mut b, n);
}

// @ob props=C13,C02 tier=quick kind=Kinf expect="panic:(Bytes::split_off|Bytes::split_to|Bytes as .*Buf>::advance|Bytes::slice(::<.*>)?)$" fns=Bytes::slice timeout=900
#[kani::proof_for_contract(slice_oob)]
fn kx_panic_slice_frame_static() {
    let (b, off, len) = super::verif_b_misc::any_static();
    let lo: usize = kani::any();
    let hi: usize = kani::any();
    let _ = slice_oob(&b, lo, hi);
}

// ---- quick variants: same pre-states and arguments without the assigns clause ------------------
// (reach exactly the documented panic, no UB on the way, never return; "nothing written before
// the panic" is the thorough-tier proof_for_contract obligation above)

// @ob props=C13,C02 tier=quick kind=Kinf expect="panic:(Bytes::split_off|Bytes::split_to|Bytes as .*Buf>::advance|Bytes::slice(::<.*>)?)$" fns=Bytes::split_off,Bytes::split_to,Bytes::advance,Bytes::slice
#[kani::proof]
fn kx_panic_bytes_quick() {
    let (mut b, g) = any_arc();
    let a: usize = kani::any();
    let z: usize = kani::any();
    let op: u8 = kani::any();
    if op == 0 {
        kani::assume(a > g.len);
        let r = b.split_off(a);
        core::mem::forget(r);
    } else if op == 1 {
        kani::assume(a > g.len);
        let r = b.split_to(a);
        core::mem::forget(r);
    } else if op == 2 {
        kani::assume(a > g.len);
        Buf::advance(&mut b, a);
    } else {
        kani::assume(a > z || z > g.len);
        let r = b.slice(a..z);
        core::mem::forget(r);
    }
    core::mem::forget(b);
    assert!(false, "returned for an out-of-contract argument");
}
