// @parent src/bytes_mut.rs
// C14 bounded twin on the REAL types (the unbounded proof is Verus unit `cmp`, which treats Bytes /
// BytesMut as opaque views and therefore cannot see changes that reach into their fields): every
// comparison / hash impl agrees with the slices, for two views of 0..=3 bytes taken from ONE 4-byte
// buffer (so equal start addresses with different lengths, overlapping and disjoint views all
// occur) and from two different buffers.  Bounded: length <= 3; str/String sides use ASCII bytes.
#![allow(unused_imports, unused_variables, unused_mut, dead_code)]
use super::verif_m_wf::*;
use super::*;
use core::cmp::Ordering as Ord_;
use core::hash::{Hash, Hasher};

struct TraceHasher { acc: u64, n: u64 }
impl Hasher for TraceHasher {
    fn finish(&self) -> u64 { self.acc ^ (self.n << 56) }
    fn write(&mut self, bytes: &[u8]) {
        let mut i = 0;
        while i < bytes.len() { self.acc = self.acc.wrapping_mul(1099511628211).wrapping_add(bytes[i] as u64 + 1); i += 1; }
        self.n += 1;
    }
}
fn h<T: Hash + ?Sized>(t: &T) -> u64 { let mut s = TraceHasher { acc: 14695981039346656037, n: 0 }; t.hash(&mut s); s.finish() }

fn views() -> ([u8; 4], [u8; 4], usize, usize, usize, usize, bool) {
    let a: [u8; 4] = kani::any();
    let b: [u8; 4] = kani::any();
    let (o1, l1, o2, l2) = (kani::any::<usize>(), kani::any::<usize>(), kani::any::<usize>(), kani::any::<usize>());
    kani::assume(o1 <= 4 && l1 <= 3 && l1 <= 4 - o1 && o2 <= 4 && l2 <= 3 && l2 <= 4 - o2);
    (a, b, o1, l1, o2, l2, kani::any())
}

// @ob props=C14 tier=quick kind=Kbounded bound="views of 0..=3 bytes of 4-byte buffers" fns=PartialEq_for_Bytes,PartialOrd_for_Bytes,Ord_for_Bytes,Hash_for_Bytes,Borrow_for_Bytes,PartialEq<[u8]>_for_Bytes,PartialEq<Vec<u8>>_for_Bytes
#[kani::proof]
#[kani::unwind(10)]
fn kx_cmp_bytes_bytes() {
    let (a, b, o1, l1, o2, l2, same) = views();
    // two static-representation handles; `same` => both into buffer a (shared start addresses possible)
    let a: &'static [u8; 4] = unsafe { &*(&a as *const [u8; 4]) };
    let b: &'static [u8; 4] = unsafe { &*(&b as *const [u8; 4]) };
    let x = Bytes::from_static(&a[o1..o1 + l1]);
    let y = Bytes::from_static(if same { &a[o2..o2 + l2] } else { &b[o2..o2 + l2] });
    let (sx, sy): (&[u8], &[u8]) = (&a[o1..o1 + l1], if same { &a[o2..o2 + l2] } else { &b[o2..o2 + l2] });
    assert!((x == y) == (sx == sy));
    assert!(x.partial_cmp(&y) == sx.partial_cmp(sy));
    assert!(x.cmp(&y) == sx.cmp(sy));
    assert!((x < y) == (sx < sy) && (x > y) == (sy < sx));
    assert!(h(&x) == h(sx));
    let bx: &[u8] = core::borrow::Borrow::borrow(&x);
    assert!(bx == sx);
    // mixed, both operand orders
    assert!((x == *sy) == (sx == sy) && (*sy == x) == (sx == sy));
    assert!(x.partial_cmp(sy) == sx.partial_cmp(sy) && sy.partial_cmp(&x) == sy.partial_cmp(sx));
    assert!((x == sy) == (sx == sy) && (sy == x) == (sx == sy));
    kani::cover!(same && o1 == o2 && l1 != l2 && l1 > 0 && l2 > 0, "same start address, different lengths");
}

// @ob props=C14 tier=quick kind=Kbounded bound="views of 0..=3 bytes of 4-byte buffers" fns=PartialEq_for_BytesMut,PartialOrd_for_BytesMut,Ord_for_BytesMut,Hash_for_BytesMut,PartialEq<Bytes>_for_BytesMut,PartialEq<BytesMut>_for_Bytes
#[kani::proof]
#[kani::unwind(10)]
fn kx_cmp_bytes_mut() {
    let (a, b, o1, l1, o2, l2, same) = views();
    let (sx, sy): (&[u8], &[u8]) = (&a[o1..o1 + l1], &b[o2..o2 + l2]);
    let x = BytesMut::from(sx);
    let y = BytesMut::from(sy);
    assert!((x == y) == (sx == sy));
    assert!(x.partial_cmp(&y) == sx.partial_cmp(sy) && x.cmp(&y) == sx.cmp(sy));
    assert!(h(&x) == h(sx));
    let bx: &[u8] = core::borrow::Borrow::borrow(&x);
    assert!(bx == sx);
    assert!((x == *sy) == (sx == sy) && (*sy == x) == (sx == sy));
    assert!(x.partial_cmp(sy) == sx.partial_cmp(sy) && sy.partial_cmp(&x) == sy.partial_cmp(sx));
    let a2: &'static [u8; 4] = unsafe { &*(&b as *const [u8; 4]) };
    let yb = Bytes::from_static(&a2[o2..o2 + l2]);
    assert!((x == yb) == (sx == sy) && (yb == x) == (sx == sy));
    core::mem::forget(x);
    core::mem::forget(y);
}

// @ob props=C14 tier=quick kind=Kbounded bound="two BytesMut handles with disjoint regions on ONE 4-byte block, lengths 0..=3" fns=PartialEq_for_BytesMut,PartialOrd_for_BytesMut,Ord_for_BytesMut,Hash_for_BytesMut
#[kani::proof]
#[kani::unwind(10)]
fn kx_cmp_bytes_mut_same_block() {
    // two live handles on the same allocation: regions [o, o+cap) are disjoint (C04), which still
    // allows an EMPTY handle to start exactly where a non-empty neighbour starts or ends
    // (split_to(0), split_off(k) then advance(k)).  Seed C14-6: a pointer-equality fast path in eq.
    let (base, vcap) = alloc_fixed(4);
    let content: [u8; 4] = kani::any();
    unsafe { core::ptr::copy_nonoverlapping(content.as_ptr(), base, 4) };
    let (shared, _repr) = shared_on(base, vcap, 2);
    let (o1, l1, c1, o2, l2, c2): (usize, usize, usize, usize, usize, usize) = (kani::any(), kani::any(), kani::any(), kani::any(), kani::any(), kani::any());
    kani::assume(o1 <= 4 && c1 <= 4 - o1 && l1 <= c1 && l1 <= 3);
    kani::assume(o2 <= 4 && c2 <= 4 - o2 && l2 <= c2 && l2 <= 3);
    kani::assume(o1 + c1 <= o2 || o2 + c2 <= o1);
    let x = BytesMut { ptr: vptr(unsafe { base.add(o1) }), len: l1, cap: c1, data: shared };
    let y = BytesMut { ptr: vptr(unsafe { base.add(o2) }), len: l2, cap: c2, data: shared };
    let (sx, sy): (&[u8], &[u8]) = (&content[o1..o1 + l1], &content[o2..o2 + l2]);
    assert!((x == y) == (sx == sy) && (y == x) == (sx == sy));
    assert!(x.partial_cmp(&y) == sx.partial_cmp(sy) && x.cmp(&y) == sx.cmp(sy));
    assert!((x < y) == (sx < sy) && (x > y) == (sy < sx));
    assert!(h(&x) == h(sx) && h(&y) == h(sy));
    kani::cover!(o1 == o2 && l1 != l2, "same start address, one handle empty");
    core::mem::forget(x);
    core::mem::forget(y);
}

// @ob props=C14 tier=quick kind=Kbounded bound="views of 0..=3 bytes; Vec / String sides (ASCII)" fns=PartialEq<Vec<u8>>,PartialOrd<Vec<u8>>,PartialEq<String>,PartialOrd<String>,PartialEq<str>,PartialOrd<str>
#[kani::proof]
#[kani::unwind(6)]
fn kx_cmp_vec_string() {
    let (a, b, o1, l1, o2, l2, same) = views();
    kani::assume(b[0] < 0x80 && b[1] < 0x80 && b[2] < 0x80 && b[3] < 0x80);
    let (sx, sy): (&[u8], &[u8]) = (&a[o1..o1 + l1], &b[o2..o2 + l2]);
    let a1: &'static [u8; 4] = unsafe { &*(&a as *const [u8; 4]) };
    let x = Bytes::from_static(&a1[o1..o1 + l1]);
    let xm = BytesMut::from(sx);
    let v: Vec<u8> = sy.to_vec();
    let st: &str = unsafe { core::str::from_utf8_unchecked(sy) };
    let which: u8 = kani::any();
    let eq = sx == sy;
    let (lt, gt) = (sx.partial_cmp(sy), sy.partial_cmp(sx));
    if which == 0 {
        assert!((x == v) == eq && (v == x) == eq && x.partial_cmp(&v) == lt && v.partial_cmp(&x) == gt);
        assert!((xm == v) == eq && (v == xm) == eq && xm.partial_cmp(&v) == lt && v.partial_cmp(&xm) == gt);
    } else if which == 1 {
        assert!((x == *st) == eq && (*st == x) == eq && x.partial_cmp(st) == lt && st.partial_cmp(&x) == gt);
        assert!((xm == *st) == eq && (*st == xm) == eq && xm.partial_cmp(st) == lt && st.partial_cmp(&xm) == gt);
        assert!((x == st) == eq && (st == x) == eq && (xm == st) == eq && (st == xm) == eq);
        assert!(st.partial_cmp(&x) == gt && st.partial_cmp(&xm) == gt);
    } else {
        let s: String = String::from(st);
        assert!((x == s) == eq && (s == x) == eq && x.partial_cmp(&s) == lt && s.partial_cmp(&x) == gt);
        assert!((xm == s) == eq && (s == xm) == eq && xm.partial_cmp(&s) == lt && s.partial_cmp(&xm) == gt);
        core::mem::forget(s);
    }
    core::mem::forget(v);
    core::mem::forget(xm);
}

// @ob props=C14 tier=quick kind=Kbounded bound="one arbitrary byte (incl. non-UTF-8) against str / &str of 0..=1 ASCII bytes" fns=PartialOrd<str>_for_BytesMut,PartialOrd<str>_for_Bytes,PartialOrd<&str>,PartialEq<str>
#[kani::proof]
#[kani::unwind(6)]
fn kx_cmp_non_utf8_against_str() {
    // the crate's side may hold ANY bytes (not only valid UTF-8): comparisons with str are byte
    // comparisons in both operand orders.  Kept tiny so that a change routing through UTF-8
    // validation stays decidable (seed C14-4 made the 3-byte twin time out).
    let x: u8 = kani::any();
    let c: u8 = kani::any();
    kani::assume(c < 0x80);
    let n: usize = kani::any();
    kani::assume(n <= 1);
    let sb = [c];
    let st: &str = unsafe { core::str::from_utf8_unchecked(&sb[..n]) };
    let xs = [x];
    let (sx, sy): (&[u8], &[u8]) = (&xs[..], &sb[..n]);
    let (lt, gt, eq) = (sx.partial_cmp(sy), sy.partial_cmp(sx), sx == sy);
    let xm = BytesMut::from(sx);
    let xr: &'static [u8; 1] = unsafe { &*(&xs as *const [u8; 1]) };
    let xb = Bytes::from_static(&xr[..]);
    assert!(xm.partial_cmp(st) == lt && st.partial_cmp(&xm) == gt && (xm == *st) == eq && (*st == xm) == eq);
    assert!(xb.partial_cmp(st) == lt && st.partial_cmp(&xb) == gt && (xb == *st) == eq && (*st == xb) == eq);
    assert!(xm.partial_cmp(&st) == lt && (&st).partial_cmp(&xm) == gt && xb.partial_cmp(&st) == lt && (&st).partial_cmp(&xb) == gt);
    kani::cover!(x >= 0x80, "not valid UTF-8 on the crate's side");
    core::mem::forget(xm);
}
