// @parent src/buf/buf_impl.rs
// C09: copy_to_slice / copy_to_bytes "return exactly the next bytes and consume exactly that many",
// for the default methods (abstract multi-chunk implementor), Take, Chain (all three branches),
// &[u8] (specialised copy_to_slice), Bytes and BytesMut (zero-copy split).  Bounded: sequences of at
// most 8 bytes, every chunking.
#![allow(unused_imports, unused_variables, unused_mut, dead_code)]
use super::*;
use crate::{Bytes, BytesMut};

// @ob props=C09,C10 tier=quick kind=Kbounded bound="sequence <= 12 bytes, dst <= 6, every chunking" fns=Buf::copy_to_slice,Buf::try_copy_to_slice
#[kani::proof]
#[kani::unwind(8)]
fn kx_default_copy_to_slice() {
    // the default try_copy_to_slice loop itself (no override here): AbsBuf2 has only the 3 required methods
    struct AbsBuf2 { data: [u8; 12], pos: usize, end: usize, cut: usize }
    impl Buf for AbsBuf2 {
        fn remaining(&self) -> usize { self.end - self.pos }
        fn chunk(&self) -> &[u8] {
            if self.pos == self.end { return &[]; }
            let mut k = self.cut; if k == 0 { k = 1; } if k > self.end - self.pos { k = self.end - self.pos; }
            &self.data[self.pos..self.pos + k]
        }
        fn advance(&mut self, cnt: usize) { assert!(cnt <= self.end - self.pos); self.pos += cnt; }
    }
    let mut b = AbsBuf2 { data: kani::any(), pos: kani::any(), end: kani::any(), cut: kani::any() };
    kani::assume(b.pos <= b.end && b.end <= 12);
    let p = b.pos;
    let mut dst = [0u8; 6];
    let n: usize = kani::any();
    kani::assume(n <= 6 && n <= b.end - b.pos);
    if kani::any() { b.copy_to_slice(&mut dst[..n]); } else { assert!(b.try_copy_to_slice(&mut dst[..n]).is_ok()); }
    assert!(b.pos == p + n);
    let i: usize = kani::any();
    if i < n { assert!(dst[i] == b.data[p + i]); } else if i < 6 { assert!(dst[i] == 0); }
    kani::cover!(n == 6 && b.cut == 1);
}

// @ob props=C09,C13 tier=quick kind=Kbounded bound="sequence <= 12 bytes" expect="panic:panic_advance$" fns=Buf::copy_to_slice,&[u8]::copy_to_slice,&[u8]::advance
#[kani::proof]
#[kani::unwind(8)]
fn kx_slice_copy_and_advance_beyond_panics() {
    let data: [u8; 8] = kani::any();
    let l: usize = kani::any();
    kani::assume(l <= 8);
    let mut s: &[u8] = &data[..l];
    let n: usize = kani::any();
    kani::assume(n > l && n <= 12);
    if kani::any() { let mut dst = [0u8; 12]; s.copy_to_slice(&mut dst[..n]); } else { s.advance(n); }
    assert!(false, "returned although fewer bytes remain");
}

// @ob props=C09 tier=quick kind=Kbounded bound="slice <= 8 bytes" fns=&[u8]::copy_to_slice,&[u8]::advance,&[u8]::chunk,&[u8]::remaining
#[kani::proof]
#[kani::unwind(10)]
fn kx_slice_copy_to_slice() {
    let data: [u8; 8] = kani::any();
    let l: usize = kani::any();
    kani::assume(l <= 8);
    let mut s: &[u8] = &data[..l];
    let n: usize = kani::any();
    kani::assume(n <= l);
    let mut dst = [0u8; 8];
    s.copy_to_slice(&mut dst[..n]);
    assert!(s.remaining() == l - n && s.chunk().len() == l - n);
    let i: usize = kani::any();
    if i < n { assert!(dst[i] == data[i]); }
    if i < l - n { assert!(s.chunk()[i] == data[n + i]); }
}

// copy_to_bytes of the adapters allocates a BytesMut of the requested size; with a SYMBOLIC size
// CBMC does not finish.  These obligations therefore enumerate every (|a|, |b|, n) with |a|,|b| <= 2
// as CONCRETE sizes (Rust loops with constant bounds, fully unrolled) while contents and Take's
// limit stay symbolic.  Bounded, stated.

fn chain_case(a: &[u8; 2], b: &[u8; 2], la: usize, lb: usize, n: usize) {
    let mut c = Chain::new(&a[..la], &b[..lb]);
    let r = c.copy_to_bytes(n);
    assert!(r.len() == n && c.remaining() == la + lb - n);
    let i: usize = kani::any();
    if i < n { assert!(r[i] == if i < la { a[i] } else { b[i - la] }); }
    // a is consumed before b
    let (ra, rb) = c.into_inner();
    assert!(ra.len() == if n < la { la - n } else { 0 } && rb.len() == if n < la { lb } else { lb - (n - la) });
    core::mem::forget(r);
}

// @ob props=C09,C12 tier=quick kind=Kbounded bound="two slices of 0..=2 bytes, every n, sizes enumerated concretely" fns=Chain::copy_to_bytes,Buf::copy_to_bytes(&[u8])
#[kani::proof]
#[kani::unwind(8)]
fn kx_chain_copy_to_bytes() {
    let (a, b): ([u8; 2], [u8; 2]) = (kani::any(), kani::any());
    let mut la = 0;
    while la <= 2 {
        let mut lb = 0;
        while lb <= 2 {
            let mut n = 0;
            while n <= la + lb { chain_case(&a, &b, la, lb, n); n += 1; }
            lb += 1;
        }
        la += 1;
    }
}

// @ob props=C09,C12 tier=quick kind=Kbounded bound="a: 1 byte, b: a chain of 1 + 1 bytes (multi-chunk tail), n in 2..=3" fns=Chain::copy_to_bytes
#[kani::proof]
#[kani::unwind(8)]
fn kx_chain_copy_to_bytes_multichunk_tail() {
    // the straddling branch with a second half that is itself multi-chunk: the request reaches past
    // b's first chunk (seed C12-5 copied from b.chunk() only).  Twin of V unit buf_copy.
    let d: [u8; 3] = kani::any();
    let mut n = 2;
    while n <= 3 {
        let mut c = Chain::new(&d[..1], Chain::new(&d[1..2], &d[2..3]));
        let r = c.copy_to_bytes(n);
        assert!(r.len() == n && c.remaining() == 3 - n);
        let i: usize = kani::any();
        if i < n { assert!(r[i] == d[i]); }
        core::mem::forget(r);
        n += 1;
    }
}

fn take_case(a: &[u8; 2], b: &[u8; 2], la: usize, lb: usize, n: usize) {
    let limit: usize = kani::any();
    kani::assume(limit >= n);
    let mut t = take::new(Chain::new(&a[..la], &b[..lb]), limit);
    let rem = if limit < la + lb { limit } else { la + lb };
    assert!(t.remaining() == rem);
    let r = t.copy_to_bytes(n);
    assert!(r.len() == n && t.limit() == limit - n && t.remaining() == rem - n);
    let i: usize = kani::any();
    if i < n { assert!(r[i] == if i < la { a[i] } else { b[i - la] }); }
    assert!(t.get_ref().remaining() == la + lb - n);
    core::mem::forget(r);
}

// @ob props=C09,C12 tier=quick kind=Kbounded bound="two slices of 0..=2 bytes, every n, any limit >= n; sizes enumerated concretely" fns=Take::copy_to_bytes,Take::advance,Take::remaining
#[kani::proof]
#[kani::unwind(8)]
fn kx_take_copy_to_bytes() {
    let (a, b): ([u8; 2], [u8; 2]) = (kani::any(), kani::any());
    let mut la = 0;
    while la <= 2 {
        let mut lb = 0;
        while lb <= 2 {
            let mut n = 0;
            while n <= la + lb { take_case(&a, &b, la, lb, n); n += 1; }
            lb += 1;
        }
        la += 1;
    }
}

// @ob props=C09,C13 tier=quick kind=Kbounded bound="slices of 1 byte" expect="panic:(Take<.*copy_to_bytes|Take<.*advance|panic_advance|Chain<.*copy_to_bytes)" fns=Take::copy_to_bytes,Take::advance,Chain::copy_to_bytes
#[kani::proof]
#[kani::unwind(8)]
fn kx_take_chain_beyond_remaining_panics() {
    let (a, b): ([u8; 1], [u8; 1]) = (kani::any(), kani::any());
    let which: u8 = kani::any();
    if which == 0 {
        let mut t = take::new(&a[..], 1);
        let _ = t.copy_to_bytes(2);
    } else if which == 1 {
        let limit: usize = kani::any();
        let mut t = take::new(&a[..], limit);
        let n: usize = kani::any();
        kani::assume(n > t.remaining());
        t.advance(n);
    } else if which == 2 {
        let mut c = Chain::new(&a[..], &b[..]);
        let r = c.copy_to_bytes(3);
        core::mem::forget(r);
    } else {
        let mut c = Chain::new(&a[..], &b[..]);
        let n: usize = kani::any();
        kani::assume(n > 2);
        c.advance(n);
    }
    assert!(false, "returned although fewer bytes remain");
}

// @ob props=C09,C07 tier=quick kind=Kinf fns=Buf_for_Bytes::copy_to_bytes,Buf_for_Bytes::remaining,Buf_for_Bytes::chunk
#[kani::proof]
fn kx_bytes_copy_to_bytes_is_split_to() {
    static DATA: [u8; 16] = [1, 2, 3, 4, 5, 6, 7, 8, 9, 10, 11, 12, 13, 14, 15, 16];
    let off: usize = kani::any();
    let len: usize = kani::any();
    kani::assume(off <= 16 && len <= 16 - off);
    let mut b = Bytes::from_static(&DATA[off..off + len]);
    let n: usize = kani::any();
    kani::assume(n <= len);
    let r = b.copy_to_bytes(n);
    assert!(r.len() == n && b.remaining() == len - n && b.chunk().len() == len - n);
    let i: usize = kani::any();
    if i < n { assert!(r[i] == DATA[off + i]); }
    if i < len - n { assert!(b.chunk()[i] == DATA[off + n + i]); }
    // zero-copy
    if n > 0 { assert!(r.as_ptr() as usize == DATA.as_ptr() as usize + off); }
}

// @ob props=C16,C09,C11,C12 tier=quick kind=Kinf fns=Chain::remaining,Chain::remaining_mut,Take::remaining,Limit::remaining_mut,Limit::set_limit,Take::set_limit,limit::new,take::new
#[kani::proof]
fn kx_chain_remaining_saturates_for_every_usize() {
    // Implementors may report any `usize` (an endless generator reports usize::MAX; Vec<u8> reports
    // isize::MAX - len as remaining_mut).  The adapters' arithmetic must be total on all of it:
    // no overflow check may fire (debug would panic where release wraps - C16), the sum saturates.
    struct Huge(usize);
    static ONE: [u8; 1] = [0];
    impl Buf for Huge {
        fn remaining(&self) -> usize { self.0 }
        fn chunk(&self) -> &[u8] { if self.0 == 0 { &[] } else { &ONE } }
        fn advance(&mut self, cnt: usize) { assert!(cnt <= self.0); self.0 -= cnt; }
    }
    unsafe impl crate::BufMut for Huge {
        fn remaining_mut(&self) -> usize { self.0 }
        unsafe fn advance_mut(&mut self, cnt: usize) { self.0 -= cnt; }
        fn chunk_mut(&mut self) -> &mut crate::buf::UninitSlice { crate::buf::UninitSlice::new(&mut []) }
    }
    let (a, b, n): (usize, usize, usize) = (kani::any(), kani::any(), kani::any());
    let c = Buf::chain(Huge(a), Huge(b));
    assert!(Buf::remaining(&c) == a.saturating_add(b));
    let t = Buf::take(c, n);
    assert!(Buf::remaining(&t) == core::cmp::min(n, a.saturating_add(b)));
    let cm = crate::BufMut::chain_mut(Huge(a), Huge(b));
    assert!(crate::BufMut::remaining_mut(&cm) == a.saturating_add(b));
    let mut lm = crate::BufMut::limit(cm, n);
    assert!(crate::BufMut::remaining_mut(&lm) == core::cmp::min(n, a.saturating_add(b)) && lm.limit() == n);
    // the limit is a bound, not a promise: raising it later never reports more than the inner target accepts
    let m: usize = kani::any();
    lm.set_limit(m);
    assert!(crate::BufMut::remaining_mut(&lm) == core::cmp::min(m, a.saturating_add(b)) && lm.limit() == m);
    let mut t = t;
    t.set_limit(m);
    assert!(Buf::remaining(&t) == core::cmp::min(m, a.saturating_add(b)) && t.limit() == m);
    kani::cover!(a.checked_add(b).is_none(), "sum exceeds usize");
}

// @ob props=C09 tier=quick kind=Kbounded bound="3-byte buffer, nth(k) with k <= 4" fns=IntoIter::next,Iterator::nth(IntoIter),Iterator::count(IntoIter)
#[kani::proof]
#[kani::unwind(7)]
fn kx_into_iter_provided_methods_follow_next() {
    // the provided Iterator methods behave as iterated `next()`: an override (seed C09-9 added an
    // `nth` that does not exhaust the buffer) must agree with the cursor laws too
    let d: [u8; 3] = kani::any();
    let k: usize = kani::any();
    kani::assume(k <= 4);
    let mut it = crate::buf::IntoIter::new(&d[..]);
    let r = it.nth(k);
    assert!(r == if k < 3 { Some(d[k]) } else { None });
    let left = if k < 3 { 3 - (k + 1) } else { 0 };
    assert!(it.get_ref().len() == left && it.size_hint() == (left, Some(left)));
    assert!(it.count() == left);
    kani::cover!(k == 3);
}
