// @parent src/bytes_mut.rs
// Constructors and the remaining small entry points of BytesMut (bounded: sizes <= 8, contents symbolic):
// with_capacity / new / zeroed / From<&[u8]> / From<&str> / FromIterator / Default, DerefMut writes
// (frame: only the addressed byte changes), fmt::Write, original_capacity_*.  (Extend: l_liars.rs)
#![allow(unused_imports, unused_variables, unused_mut, dead_code)]
use super::verif_m_wf::*;
use super::*;

// @ob props=C01,C04,C02 tier=quick kind=Kbounded bound="capacity / length <= 8" leak=1 fns=BytesMut::with_capacity,BytesMut::new,BytesMut::zeroed,BytesMut::from_vec,From<&[u8]>for_BytesMut,original_capacity_to_repr
#[kani::proof]
#[kani::unwind(10)]
fn kx_m_constructors() {
    let n: usize = kani::any();
    kani::assume(n <= 8);
    let src: [u8; 8] = kani::any();
    let i: usize = kani::any();
    let which: u8 = kani::any();
    let b = match which {
        0 => { let b = BytesMut::with_capacity(n); assert!(b.len() == 0 && b.capacity() >= n); b }
        1 => { let b = BytesMut::new(); assert!(b.len() == 0 && b.capacity() == 0); b }
        2 => { let b = BytesMut::zeroed(n); assert!(b.len() == n); if i < n { assert!(b[i] == 0); } b }
        3 => { let b = BytesMut::from(&src[..n]); assert!(b.len() == n); if i < n { assert!(b[i] == src[i]); } b }
        _ => { let b: BytesMut = BytesMut::default(); assert!(b.len() == 0); b }
    };
    // fresh buffers are in the inline-Vec form with front offset 0 and describe their whole allocation
    assert!(b.kind() == KIND_VEC && (b.data as usize) >> VEC_POS_OFFSET == 0 && b.len <= b.cap);
    assert!(((b.data as usize) & REPR_MASK) >> ORIGINAL_CAPACITY_OFFSET == 0); // capacity < 1 KiB
    drop(b);
}

// @ob props=C18,C04 tier=quick kind=Kinf fns=original_capacity_to_repr,original_capacity_from_repr
#[kani::proof]
fn kx_original_capacity_repr() {
    // 3-bit log2 of the first allocation's size: monotone, 0 below 1 KiB, saturating at 64 KiB, and
    // from_repr never exceeds the capacity it was computed from (so "allocate at least the original
    // capacity" cannot inflate a buffer)
    let cap: usize = kani::any();
    let r = original_capacity_to_repr(cap);
    assert!(r <= 7);
    let back = original_capacity_from_repr(r);
    assert!(back <= cap || cap < 1024);
    if cap < 1024 { assert!(r == 0 && back == 0); }
    if cap >= 64 * 1024 { assert!(r == 7 && back == 64 * 1024); }
    let cap2: usize = kani::any();
    if cap2 >= cap { assert!(original_capacity_to_repr(cap2) >= r); }
}

// @ob props=C01,C04,C02 tier=quick kind=Kinf fns=DerefMut_for_BytesMut::deref_mut,BytesMut::as_slice_mut,AsMut,BorrowMut
#[kani::proof]
fn kx_m_deref_mut_write_frame() {
    // a write through DerefMut lands at ptr+i and nowhere else in the allocation
    let (base, vcap) = alloc_sym();
    let arc: bool = kani::any();
    let (mut b, g) = if arc { marc_on(base, vcap, any_count()) } else { mvec_on(base, vcap) };
    kani::assume(g.len > 0);
    let i: usize = kani::any();
    kani::assume(i < g.len);
    let j: usize = kani::any();
    kani::assume(j < vcap && j != g.off + i);
    let y: u8 = kani::any();
    unsafe { *base.add(j) = y };
    let x: u8 = kani::any();
    {
        let s: &mut [u8] = &mut b;
        assert!(s.len() == g.len && s.as_ptr() as usize == base as usize + g.off);
        s[i] = x;
    }
    assert!(unsafe { *base.add(g.off + i) } == x && unsafe { *base.add(j) } == y);
    assert!(b.len == g.len && b.cap == g.cap);
    core::mem::forget(b);
}

// @ob props=C01,C11 tier=quick kind=Kbounded bound="allocation size 8; text <= 4 ASCII bytes" leak=1 fns=fmt::Write_for_BytesMut::write_str
#[kani::proof]
#[kani::unwind(10)]
fn kx_m_write_str() {
    use core::fmt::Write;
    let (base, vcap) = alloc_fixed(8);
    let (mut b, g) = mvec_on(base, vcap);
    let l0 = g.len;
    let src: [u8; 4] = kani::any();
    let n: usize = kani::any();
    kani::assume(n <= 4);
    kani::assume(src[0] < 0x80 && src[1] < 0x80 && src[2] < 0x80 && src[3] < 0x80);
    let s: &str = unsafe { core::str::from_utf8_unchecked(&src[..n]) };
    assert!(b.write_str(s).is_ok());
    assert!(b.len() == l0 + n);
    let i: usize = kani::any();
    if i < n { assert!(b[l0 + i] == src[i]); }
    drop(b);
}

// @ob props=C16 tier=quick kind=Kinf fns=vptr,invalid_ptr
#[kani::proof]
fn kx_vptr_branches_agree() {
    // vptr has a debug_assertions branch (NonNull::new(..).expect) and a release branch
    // (new_unchecked).  For a non-null argument - which every obligation that reaches vptr shows by
    // passing the debug branch's `expect` - both yield the same pointer, so the two profiles agree.
    let a: usize = kani::any();
    kani::assume(a != 0);
    let p = a as *mut u8;
    let d = NonNull::new(p).expect("non-null");
    let r = unsafe { NonNull::new_unchecked(p) };
    assert!(d.as_ptr() == r.as_ptr() && vptr(p).as_ptr() == p);
    // invalid_ptr: the tagged-integer `data` of the inline-Vec form survives the round trip
    let t: usize = kani::any();
    kani::assume(t < (1usize << 47));
    assert!(invalid_ptr::<Shared>(t) as usize == t);
}
