// @parent src/bytes.rs
// Contracts of the Bytes operations on the promotable representation in its KIND_VEC state
// (sole handle on a Box<[u8]>-style allocation; capacity is NOT stored, it is recomputed as
// (ptr - buf) + len), for even addresses (tag bit set in `data`) and odd addresses (`data == buf`,
// built as base+1 inside a larger block, frees observed through the dealloc ledger).
//
// Branch pruning (sound, see DESIGN.md 2.2): from a KIND_VEC state the KIND_ARC arms of the
// promotable_* functions and the lost-race arm of shallow_clone_vec are unreachable.  Their callees
// are replaced by `assert!(false)` stubs: if a change to the crate makes one reachable the
// obligation FAILS; otherwise CBMC does not have to encode frees through integer-derived pointers.
#![allow(unused_imports, unused_variables, unused_mut)]
use super::verif_b_wf::*;
use super::*;

unsafe fn unreachable_clone_arc(shared: *mut Shared, ptr: *const u8, len: usize) -> Bytes {
    assert!(false, "KIND_ARC / lost-race arm reached from a sequential KIND_VEC state");
    Bytes::new()
}
unsafe fn unreachable_to_mut(shared: *mut Shared, ptr: *const u8, len: usize) -> BytesMut {
    assert!(false, "KIND_ARC arm reached from a KIND_VEC state");
    BytesMut::new()
}
/// contract of release_shared when another handle still exists (count > 1): one reference given
/// up, nothing freed.  release_shared itself is proved against "k -> k-1, frees iff k == 1" by
/// kx_arc_drop for every k.
unsafe fn release_shared_not_last(ptr: *mut Shared) {
    let k = (*ptr).ref_cnt.load(Ordering::Relaxed);
    assert!(k > 1, "last reference released although the promoting handle still exists");
    (*ptr).ref_cnt.store(k - 1, Ordering::Relaxed);
}

/// `c` was produced by the promotion of `b`: both point to one new control block that describes
/// the WHOLE allocation and has count `k`
fn promoted_via(c: &Bytes, b: &Bytes, g: &Ghost, k: usize) -> bool {
    let sh = c.data.load(Ordering::Relaxed) as *mut Shared;
    b.data.load(Ordering::Relaxed) as usize == sh as usize
        && (sh as usize) & KIND_MASK == KIND_ARC
        && unsafe { (*sh).buf as usize == g.buf as usize && (*sh).cap == g.cap && (*sh).ref_cnt.load(Ordering::Relaxed) == k }
}

fn clone_contract(b: Bytes, g: Ghost, vt: &'static Vtable) {
    let (i, x) = plant(&b);
    let c = b.clone();
    let p = g.buf as usize + g.off;
    // promoted with count 2; both handles keep address and length; the clone is a shared handle
    assert!(is_vt(&c, &SHARED_VTABLE) && is_vt(&b, vt));
    assert!(promoted_via(&c, &b, &g, 2));
    assert!(b.ptr as usize == p && b.len == g.len && c.ptr as usize == p && c.len == g.len);
    if g.len > 0 { assert!(c.as_slice()[i] == x && b.as_slice()[i] == x); }
    kani::cover!(g.off > 0 && g.len > 0);
    core::mem::forget(b);
    core::mem::forget(c);
}

// @ob props=C01,C02,C03,C07,C16 tier=quick kind=Kinf fns=promotable_even_clone,shallow_clone_vec,ptr_map
#[kani::proof]
#[kani::stub(shallow_clone_arc, unreachable_clone_arc)]
fn kx_prom_even_clone_promotes() {
    let (b, g) = any_prom_even();
    clone_contract(b, g, &PROMOTABLE_EVEN_VTABLE);
}

// @ob props=C01,C02,C03,C07,C16 tier=quick kind=Kinf fns=promotable_odd_clone,shallow_clone_vec
#[kani::proof]
#[kani::stub(shallow_clone_arc, unreachable_clone_arc)]
fn kx_prom_odd_clone_promotes() {
    let (b, g) = any_prom_odd();
    clone_contract(b, g, &PROMOTABLE_ODD_VTABLE);
}

// @ob props=C07,C02 tier=quick kind=Kinf fns=promotable_even_clone,promotable_odd_clone,shallow_clone_vec
#[kani::proof]
#[kani::stub(shallow_clone_arc, unreachable_clone_arc)]
fn kx_prom_clone_same_allocation() {
    let odd: bool = kani::any();
    let (b, g) = if odd { any_prom_odd() } else { any_prom_even() };
    let c = b.clone();
    if g.len > 0 { assert!(kani::mem::same_allocation(c.ptr, b.ptr) && c.ptr as usize == b.ptr as usize); }
    core::mem::forget(b);
    core::mem::forget(c);
}

fn split_contract(mut b: Bytes, g: Ghost, odd: bool) {
    let (i, x) = plant(&b);
    let at: usize = kani::any();
    kani::assume(at <= g.len);
    let to: bool = kani::any();
    let p = g.buf as usize + g.off;
    let r = if to { b.split_to(at) } else { b.split_off(at) };
    if at == 0 || at == g.len {
        // no promotion: one side is the old handle (moved or kept), the other the empty address-keeper
        //   split_off: at == len -> (self kept, ret = E(p+at));  at == 0 -> (ret = old self, self = E(p))
        //   split_to:  at == len -> (ret = old self, self = E(p+at));  at == 0 -> (ret = E(p), self kept)
        let full_is_r = if to { at == g.len } else { at != g.len };
        let (full, empty) = if full_is_r { (&r, &b) } else { (&b, &r) };
        let ep = if at == g.len { p + at } else { p };
        assert!(is_empty_static_at(empty, ep));
        assert!(full.ptr as usize == p && full.len == g.len);
        assert!(full.data.load(Ordering::Relaxed) as usize == if odd { g.buf as usize } else { g.buf as usize | KIND_VEC });
    } else {
        let (lo, hi) = if to { (&r, &b) } else { (&b, &r) };
        assert!(promoted_via(&r, &b, &g, 2) && is_vt(&r, &SHARED_VTABLE));
        assert!(lo.ptr as usize == p && lo.len == at && hi.ptr as usize == p + at && hi.len == g.len - at);
        if i < at { assert!(lo.as_slice()[i] == x); } else { assert!(hi.as_slice()[i - at] == x); }
    }
    kani::cover!(at > 0 && at < g.len && to);
    kani::cover!(at > 0 && at < g.len && !to);
    kani::cover!(at == 0 && g.len > 0);
    kani::cover!(at == g.len && g.len > 0);
    core::mem::forget(r);
    core::mem::forget(b);
}

// @ob props=C01,C02,C03,C07 tier=quick kind=Kinf fns=Bytes::split_off,Bytes::split_to,shallow_clone_vec,Bytes::new_empty_with_ptr
#[kani::proof]
#[kani::stub(without_provenance, without_provenance_contract)]
#[kani::stub(shallow_clone_arc, unreachable_clone_arc)]
fn kx_prom_even_split() {
    let (b, g) = any_prom_even();
    split_contract(b, g, false);
}

// @ob props=C01,C02,C03,C07 tier=quick kind=Kinf fns=Bytes::split_off,Bytes::split_to,shallow_clone_vec,Bytes::new_empty_with_ptr
#[kani::proof]
#[kani::stub(without_provenance, without_provenance_contract)]
#[kani::stub(shallow_clone_arc, unreachable_clone_arc)]
fn kx_prom_odd_split() {
    let (b, g) = any_prom_odd();
    split_contract(b, g, true);
}

fn slice_contract(b: Bytes, g: Ghost) {
    let (i, x) = plant(&b);
    let lo: usize = kani::any();
    let hi: usize = kani::any();
    kani::assume(lo < hi && hi <= g.len);
    let p = g.buf as usize + g.off;
    let s = b.slice(lo..hi);
    assert!(promoted_via(&s, &b, &g, 2) && is_vt(&s, &SHARED_VTABLE));
    assert!(s.ptr as usize == p + lo && s.len == hi - lo && b.ptr as usize == p && b.len == g.len);
    if i >= lo && i < hi { assert!(s.as_slice()[i - lo] == x); }
    kani::cover!(lo > 0 && hi < g.len);
    core::mem::forget(s);
    core::mem::forget(b);
}

// @ob props=C01,C02,C03,C07 tier=quick kind=Kinf fns=Bytes::slice,shallow_clone_vec
#[kani::proof]
#[kani::stub(shallow_clone_arc, unreachable_clone_arc)]
fn kx_prom_odd_slice() {
    let (b, g) = any_prom_odd();
    slice_contract(b, g);
}

// @ob props=C01,C02,C03,C07 tier=thorough kind=Kinf fns=Bytes::slice,shallow_clone_vec
#[kani::proof]
#[kani::stub(shallow_clone_arc, unreachable_clone_arc)]
fn kx_prom_even_slice() {
    let (b, g) = any_prom_even();
    slice_contract(b, g);
}

fn truncate_contract(mut b: Bytes, g: Ghost, odd: bool) {
    // the un-promoted form cannot shorten its view (capacity is recomputed from the view end):
    // truncate must promote first, so that the allocation size is remembered
    let (i, x) = plant(&b);
    let n: usize = kani::any();
    kani::assume(n > 0);
    let p = g.buf as usize + g.off;
    b.truncate(n);
    if n >= g.len {
        assert!(b.ptr as usize == p && b.len == g.len);
        assert!(b.data.load(Ordering::Relaxed) as usize == if odd { g.buf as usize } else { g.buf as usize | KIND_VEC });
    } else {
        // promoted (count 2), tail dropped (count 1): the block remembers (buf, cap)
        let sh = b.data.load(Ordering::Relaxed) as *mut Shared;
        assert!((sh as usize) & KIND_MASK == KIND_ARC);
        assert!(unsafe { (*sh).buf as usize == g.buf as usize && (*sh).cap == g.cap && (*sh).ref_cnt.load(Ordering::Relaxed) == 1 });
        assert!(b.ptr as usize == p && b.len == n);
        if i < n { assert!(b.as_slice()[i] == x); }
    }
    kani::cover!(n < g.len);
    kani::cover!(n > g.len);
    core::mem::forget(b);
}

// @ob props=C01,C02,C03,C07,C13 tier=quick kind=Kinf fns=Bytes::truncate,Bytes::split_off,shallow_clone_vec,shared_drop
#[kani::proof]
#[kani::stub(without_provenance, without_provenance_contract)]
#[kani::stub(shallow_clone_arc, unreachable_clone_arc)]
#[kani::stub(release_shared, release_shared_not_last)]
fn kx_prom_odd_truncate() {
    let (b, g) = any_prom_odd();
    truncate_contract(b, g, true);
}

// @ob props=C01,C02,C03,C07,C13 tier=thorough kind=Kinf timeout=1500 fns=Bytes::truncate,Bytes::split_off,shallow_clone_vec,shared_drop
#[kani::proof]
#[kani::stub(without_provenance, without_provenance_contract)]
#[kani::stub(shallow_clone_arc, unreachable_clone_arc)]
#[kani::stub(release_shared, release_shared_not_last)]
fn kx_prom_even_truncate() {
    let (b, g) = any_prom_even();
    truncate_contract(b, g, false);
}

unsafe fn unreachable_release(ptr: *mut Shared) {
    assert!(false, "KIND_ARC arm reached from a KIND_VEC state");
}

fn truncate_zero_contract(mut b: Bytes, g: Ghost) {
    // truncate(0) / clear(): split_off(0) moves the whole handle out and drops it: the allocation
    // is released (once, with its true size) and self stays behind as the empty address-keeper
    kani::assume(g.len > 0);
    unsafe { ledger_expect(g.buf, g.cap) };
    if kani::any() { b.clear(); } else { b.truncate(0); }
    assert!(ledger_freed() == 1);
    assert!(is_empty_static_at(&b, g.buf as usize + g.off));
    drop(b);
    assert!(ledger_freed() == 1);
}

// @ob props=C01,C02,C03,C13 tier=quick kind=Kinf fns=Bytes::truncate,Bytes::clear,Bytes::split_off,promotable_odd_drop,free_boxed_slice
#[kani::proof]
#[kani::stub(without_provenance, without_provenance_contract)]
#[kani::stub(alloc::alloc::dealloc, ledger_dealloc)]
#[kani::stub(release_shared, unreachable_release)]
fn kx_prom_odd_truncate_zero_frees() {
    let (b, g) = any_prom_odd();
    truncate_zero_contract(b, g);
}

// @ob props=C01,C02,C03,C13 tier=quick kind=Kinf fns=Bytes::truncate,Bytes::clear,Bytes::split_off,promotable_even_drop,free_boxed_slice
#[kani::proof]
#[kani::stub(without_provenance, without_provenance_contract)]
#[kani::stub(alloc::alloc::dealloc, ledger_dealloc)]
#[kani::stub(release_shared, unreachable_release)]
fn kx_prom_even_truncate_zero_frees() {
    let (b, g) = any_prom_even();
    truncate_zero_contract(b, g);
}

// @ob props=C03,C02,C16 tier=quick kind=Kinf fns=promotable_even_drop,promotable_odd_drop,free_boxed_slice
#[kani::proof]
#[kani::stub(alloc::alloc::dealloc, ledger_dealloc)]
fn kx_prom_drop_ledger() {
    let odd: bool = kani::any();
    let (b, g) = if odd { any_prom_odd() } else { any_prom_even() };
    unsafe { ledger_expect(g.buf, g.cap) };
    drop(b);
    // exactly one dealloc(buf, cap, align 1) whatever the view offset
    assert!(ledger_freed() == 1);
    kani::cover!(odd && g.off > 0);
    kani::cover!(!odd && g.off > 0);
}

// @ob props=C03,C02 tier=quick kind=Kinf leak=1 fns=promotable_even_drop,free_boxed_slice
#[kani::proof]
fn kx_prom_even_drop_real() {
    // real allocator model: size/validity/double free checked by Kani, leak check: nothing stays
    let (b, g) = any_prom_even();
    drop(b);
}

// @ob props=C08 tier=quick kind=Kinf fns=promotable_is_unique
#[kani::proof]
fn kx_prom_is_unique() {
    let odd: bool = kani::any();
    let (b, g) = if odd { any_prom_odd() } else { any_prom_even() };
    assert!(b.is_unique());
    core::mem::forget(b);
}

// @ob props=C08,C07,C04,C01,C02,C16 tier=quick kind=Kinf fns=Bytes::try_into_mut,promotable_even_to_mut,promotable_to_mut,BytesMut::from_vec,BytesMut::advance_unchecked
#[kani::proof]
#[kani::stub(shared_to_mut_impl, unreachable_to_mut)]
fn kx_prom_even_try_into_mut() {
    let (b, g) = any_prom_even();
    let (i, x) = plant(&b);
    let p = g.buf as usize + g.off;
    match b.try_into_mut() {
        Ok(m) => {
            assert!(m.as_ptr() as usize == p && m.len() == g.len && m.capacity() == g.len);
            // inline-Vec form whose rebuilt Vec is exactly (buf, cap): front offset == view offset
            assert!(mvec_fields(&m) == (g.off, g.cap));
            if g.len > 0 { assert!(m[i] == x); }
            kani::cover!(g.off > 0 && g.len > 0);
            drop(m); // gives (buf, cap) back through Vec: layout checked by Kani
        }
        Err(e) => { core::mem::forget(e); assert!(false); }
    }
}

// @ob props=C08,C07,C04,C01,C16 tier=quick kind=Kinf fns=Bytes::try_into_mut,promotable_odd_to_mut,promotable_to_mut,BytesMut::from_vec,BytesMut::advance_unchecked
#[kani::proof]
#[kani::stub(shared_to_mut_impl, unreachable_to_mut)]
fn kx_prom_odd_try_into_mut() {
    let (b, g) = any_prom_odd();
    let (i, x) = plant(&b);
    let p = g.buf as usize + g.off;
    match b.try_into_mut() {
        Ok(m) => {
            assert!(m.as_ptr() as usize == p && m.len() == g.len && m.capacity() == g.len);
            assert!(mvec_fields(&m) == (g.off, g.cap));
            if g.len > 0 { assert!(m[i] == x); }
            core::mem::forget(m); // the odd buffer lives inside a larger block (see any_prom_odd)
        }
        Err(e) => { core::mem::forget(e); assert!(false); }
    }
}

// @ob props=C03,C02 tier=quick kind=Kinf leak=1 fns=shallow_clone_vec
#[kani::proof]
fn kx_shallow_clone_vec_lost_race() {
    // the CAS-loser arm, dead in a sequential well-formed state, exercised directly: `atom` already
    // holds a control block S (another clone won), the caller still passes the stale tagged pointer.
    // Contract: the loser's own block is freed WITHOUT freeing the buffer, S.count + 1, result -> S.
    let (buf, cap) = any_alloc();
    let k = any_refcnt();
    kani::assume(k >= 2);
    let s = Box::into_raw(Box::new(Shared { buf, cap, ref_cnt: AtomicUsize::new(k) }));
    let atom = AtomicPtr::new(s as *mut ());
    let (off, len) = any_view(cap);
    kani::assume(off + len == cap);
    let stale = ptr_map(buf, |a| a | KIND_VEC) as *const ();
    let r = unsafe { shallow_clone_vec(&atom, stale, buf, buf.add(off), len) };
    assert!(atom.load(Ordering::Relaxed) == s as *mut ());
    assert!(r.data.load(Ordering::Relaxed) == s as *mut () && is_vt(&r, &SHARED_VTABLE));
    assert!(r.ptr as usize == buf as usize + off && r.len == len);
    assert!(unsafe { (*s).ref_cnt.load(Ordering::Relaxed) == k + 1 && (*s).buf == buf && (*s).cap == cap });
    // the buffer is still alive (not freed by the discarded block)
    unsafe { *buf = 7; assert!(*buf == 7); }
    core::mem::forget(r);
    // release S and the buffer by hand: with the leak check on, the only thing that could stay
    // behind is the loser's discarded block
    unsafe { drop(Box::from_raw(s)) };
}
