// @parent src/bytes_mut.rs
// Contracts of the BytesMut operations that copy, move or (re)allocate: conversions into Vec<u8> and
// Bytes, Clone, extend_from_slice, resize, put*, chunk_mut, unsplit's copying fall-back.
// Allocation size fixed to 8 bytes (bounded stand-in "K8"); offset, length, contents, arguments symbolic.
#![allow(unused_imports, unused_variables, unused_mut)]
use super::verif_m_wf::*;
use super::*;

fn fill(base: *mut u8, cap: usize) -> [u8; 8] {
    let data: [u8; 8] = kani::any();
    let mut i = 0;
    while i < cap { unsafe { *base.add(i) = data[i] }; i += 1; }
    data
}

// @ob props=C01,C03,C02 tier=quick kind=Kbounded bound="allocation size 8" leak=1 fns=From<BytesMut>for_Vec<u8>,rebuild_vec
#[kani::proof]
#[kani::unwind(10)]
fn kx_mvec_into_vec() {
    let (base, vcap) = alloc_fixed(8);
    let data = fill(base, vcap);
    let (b, g) = mvec_on(base, vcap);
    let v: Vec<u8> = b.into();
    // same allocation handed over with its true capacity, bytes moved to the front
    assert!(v.len() == g.len && v.capacity() == vcap && v.as_ptr() as usize == base as usize);
    let i: usize = kani::any();
    if i < g.len { assert!(v[i] == data[g.off + i]); }
    kani::cover!(g.off > 0 && g.len > 1);
    drop(v);
}

// @ob props=C01,C03,C02 tier=quick kind=Kbounded bound="allocation size 8" leak=1 fns=From<BytesMut>for_Vec<u8>,Shared::is_unique,release_shared
#[kani::proof]
#[kani::unwind(10)]
fn kx_marc_unique_into_vec() {
    let (base, vcap) = alloc_fixed(8);
    let data = fill(base, vcap);
    let (b, g) = marc_on(base, vcap, 1);
    let v: Vec<u8> = b.into();
    // sole owner: takes the inner Vec (block freed: leak check), bytes moved to the front
    assert!(v.len() == g.len && v.capacity() == vcap && v.as_ptr() as usize == base as usize);
    let i: usize = kani::any();
    if i < g.len { assert!(v[i] == data[g.off + i]); }
    drop(v);
}

// @ob props=C01,C03,C02 tier=quick kind=Kbounded bound="allocation size 8" fns=From<BytesMut>for_Vec<u8>,release_shared
#[kani::proof]
#[kani::unwind(10)]
fn kx_marc_shared_into_vec() {
    let (base, vcap) = alloc_fixed(8);
    let data = fill(base, vcap);
    let (b, g) = marc_on(base, vcap, 2);
    let v: Vec<u8> = b.into();
    // copy; the consumed handle's reference is RELEASED (count 2 -> 1); shared buffer untouched
    assert!(v.len() == g.len);
    let i: usize = kani::any();
    if i < g.len { assert!(v[i] == data[g.off + i]); }
    assert!(count(&g) == 1 && block_intact(&g));
    let j: usize = kani::any();
    if j < vcap { assert!(unsafe { *base.add(j) } == data[j]); }
    drop(v);
}

// @ob props=C01,C03,C02 tier=quick kind=Kbounded bound="allocation size 8" leak=1 fns=shared_v_to_vec,release_shared
#[kani::proof]
#[kani::unwind(10)]
fn kx_sharedv_into_vec() {
    let (base, vcap) = alloc_fixed(8);
    let data = fill(base, vcap);
    let unique: bool = kani::any();
    let (b, g) = if unique { sharedv_on(base, vcap, 1) } else { sharedv_on(base, vcap, 2) };
    let v: Vec<u8> = b.into();
    assert!(v.len() == g.len);
    let i: usize = kani::any();
    if i < g.len { assert!(v[i] == data[g.off + i]); }
    if unique {
        assert!(v.as_ptr() as usize == base as usize && v.capacity() == vcap);
    } else {
        assert!(count(&g) == 1 && block_intact(&g));
        // release the survivor by hand so that the leak check sees only what the conversion left
        unsafe { release_shared(g.shared) };
    }
    drop(v);
}

// @ob props=C01,C03,C07,C02 tier=quick kind=Kbounded bound="allocation size 8" fns=BytesMut::freeze,rebuild_vec
#[kani::proof]
#[kani::unwind(10)]
fn kx_mvec_freeze() {
    let (base, vcap) = alloc_fixed(8);
    let data = fill(base, vcap);
    let (b, g) = mvec_on(base, vcap);
    kani::assume(g.len > 0);
    let f = b.freeze();
    // re-labelled, not copied: same address, same contents
    assert!(f.as_ptr() as usize == base as usize + g.off && f.len() == g.len);
    let i: usize = kani::any();
    if i < g.len { assert!(f[i] == data[g.off + i]); }
    assert!(f.is_unique());
    core::mem::forget(f);
}

// @ob props=C01,C03,C02 tier=thorough kind=Kbounded bound="allocation size 8" leak=1 timeout=3000 fns=BytesMut::freeze,Bytes::drop
#[kani::proof]
#[kani::unwind(10)]
fn kx_mvec_freeze_then_drop_frees_all() {
    let (base, vcap) = alloc_fixed(8);
    let (b, g) = mvec_on(base, vcap);
    let f = b.freeze();
    drop(f);
}

// @ob props=C01,C02 tier=quick kind=Kbounded bound="allocation size 8" leak=1 fns=BytesMut::clone
#[kani::proof]
#[kani::unwind(10)]
fn kx_m_clone_is_a_copy() {
    let (base, vcap) = alloc_fixed(8);
    let data = fill(base, vcap);
    let arc: bool = kani::any();
    let (b, g) = if arc { marc_on(base, vcap, 1) } else { mvec_on(base, vcap) };
    let mut c = b.clone();
    assert!(c.len() == g.len);
    let i: usize = kani::any();
    if i < g.len {
        assert!(c[i] == data[g.off + i]);
        // independent storage: writing the clone does not show through the original
        c[i] = c[i].wrapping_add(1);
        assert!(b[i] == data[g.off + i]);
    }
    drop(c);
    drop(b);
}

// @ob props=C01,C04,C11,C02 tier=quick kind=Kbounded bound="allocation size 8; appended slice <= 8 bytes" leak=1 fns=BytesMut::extend_from_slice,BytesMut::put_slice,BytesMut::reserve
#[kani::proof]
#[kani::unwind(10)]
fn kx_m_extend_from_slice() {
    let (base, vcap) = alloc_fixed(8);
    let data = fill(base, vcap);
    let arc: bool = kani::any();
    let (mut b, g) = if arc { marc_on(base, vcap, 1) } else { mvec_on(base, vcap) };
    let src: [u8; 8] = kani::any();
    let n: usize = kani::any();
    kani::assume(n <= 8);
    if kani::any() { b.extend_from_slice(&src[..n]); } else { BufMut::put_slice(&mut b, &src[..n]); }
    assert!(b.len() == g.len + n && b.capacity() >= b.len());
    let i: usize = kani::any();
    if i < g.len { assert!(b[i] == data[g.off + i]); }
    if i < n { assert!(b[g.len + i] == src[i]); }
    kani::cover!(n > g.cap - g.len, "had to grow or reclaim");
    drop(b);
}

// @ob props=C01,C04,C11,C02 tier=quick kind=Kbounded bound="allocation size 8; new length <= 16" leak=1 fns=BytesMut::resize,BytesMut::put_bytes
#[kani::proof]
#[kani::unwind(18)]
fn kx_m_resize_put_bytes() {
    let (base, vcap) = alloc_fixed(8);
    let data = fill(base, vcap);
    let arc: bool = kani::any();
    let (mut b, g) = if arc { marc_on(base, vcap, 1) } else { mvec_on(base, vcap) };
    let val: u8 = kani::any();
    let n: usize = kani::any();
    kani::assume(n <= 16);
    let i: usize = kani::any();
    if kani::any() {
        b.resize(n, val);
        assert!(b.len() == n);
        if i < n { assert!(b[i] == if i < g.len { data[g.off + i] } else { val }); }
    } else {
        kani::assume(n <= 8);
        BufMut::put_bytes(&mut b, val, n);
        assert!(b.len() == g.len + n);
        if i < g.len { assert!(b[i] == data[g.off + i]); }
        if i < n { assert!(b[g.len + i] == val); }
    }
    drop(b);
}

// @ob props=C11,C04,C02 tier=quick kind=Kbounded bound="allocation size 8" leak=1 fns=BytesMut::chunk_mut
#[kani::proof]
fn kx_m_chunk_mut() {
    let (base, vcap) = alloc_fixed(8);
    let arc: bool = kani::any();
    let (mut b, g) = if arc { marc_on(base, vcap, 1) } else { mvec_on(base, vcap) };
    let c = b.chunk_mut();
    // never empty (remaining_mut is never 0 for a growable target), exactly the spare capacity
    let (cl, cp) = (c.len(), c.as_mut_ptr() as usize);
    assert!(cl >= 1);
    assert!(cl == b.capacity() - b.len() && cp == b.as_ptr() as usize + b.len());
    assert!(b.len() == g.len);
    if g.cap == g.len { assert!(cl >= 64); }
    drop(b);
}

// @ob props=C01,C03,C04 tier=quick kind=Kbounded bound="allocation size 8" leak=1 fns=BytesMut::unsplit,BytesMut::try_unsplit,BytesMut::extend_from_slice
#[kani::proof]
#[kani::unwind(10)]
fn kx_m_unsplit_non_adjacent_copies() {
    // two handles on one block that are NOT adjacent: contents are appended by copying and the
    // second handle is released; nothing else on the block changes
    let (base, vcap) = alloc_fixed(8);
    let data = fill(base, vcap);
    let (shared, repr) = shared_on(base, vcap, 2);
    let (o1, c1, l1) = (kani::any::<usize>(), kani::any::<usize>(), kani::any::<usize>());
    let (o2, c2, l2) = (kani::any::<usize>(), kani::any::<usize>(), kani::any::<usize>());
    kani::assume(o1 <= vcap && c1 <= vcap - o1 && l1 <= c1 && l1 >= 1 && o2 <= vcap && c2 <= vcap - o2 && l2 <= c2 && c2 >= 1);
    kani::assume(o1 + c1 <= o2 || o2 + c2 <= o1);
    kani::assume(o1 + l1 != o2);
    let mut b = BytesMut { ptr: vptr(unsafe { base.add(o1) }), len: l1, cap: c1, data: shared };
    let o = BytesMut { ptr: vptr(unsafe { base.add(o2) }), len: l2, cap: c2, data: shared };
    b.unsplit(o);
    assert!(b.len() == l1 + l2);
    let i: usize = kani::any();
    if i < l1 { assert!(b[i] == data[o1 + i]); }
    if i < l2 { assert!(b[l1 + i] == data[o2 + i]); }
    drop(b);
}

// ---- K8 twins of the zero-copy operations (see b_conv.rs) ---------------------------------------

// @ob props=C07,C08,C04,C01 tier=quick kind=Kbounded bound="allocation size 8" fns=shared_v_to_mut,Bytes::try_into_mut
#[kani::proof]
#[kani::unwind(10)]
fn kx_sharedv_try_into_mut_unique_k8() {
    let (base, vcap) = alloc_fixed(8);
    let data = fill(base, vcap);
    let (b, g) = sharedv_on(base, vcap, 1);
    match b.try_into_mut() {
        Ok(m) => {
            assert!(wf_marc(&m, &g, base as usize + g.off, g.len, vcap - g.off) && count(&g) == 1 && block_intact(&g));
            let j: usize = kani::any();
            if j < vcap { assert!(unsafe { *base.add(j) } == data[j]); }
            core::mem::forget(m);
        }
        Err(e) => { core::mem::forget(e); assert!(false); }
    }
}

// @ob props=C07,C04,C01,C03 tier=quick kind=Kbounded bound="allocation size 8" fns=BytesMut::split_off,BytesMut::split_to,BytesMut::unsplit,BytesMut::freeze
#[kani::proof]
#[kani::unwind(10)]
fn kx_m_zero_copy_ops_k8() {
    // split_off / split_to / unsplit-adjacent / freeze on an 8-byte allocation: addresses as
    // tabled, and no byte of the allocation moves
    let (base, vcap) = alloc_fixed(8);
    let data = fill(base, vcap);
    let arc: bool = kani::any();
    let (mut b, g) = if arc { marc_on(base, vcap, 2) } else { mvec_on(base, vcap) };
    let p = base as usize + g.off;
    let at: usize = kani::any();
    let op: u8 = kani::any();
    if op == 0 {
        kani::assume(at <= g.cap);
        let o = b.split_off(at);
        assert!(b.as_ptr() as usize == p && o.as_ptr() as usize == p + at && b.capacity() == at && o.capacity() == g.cap - at);
        core::mem::forget(o);
    } else if op == 1 {
        kani::assume(at <= g.len);
        let o = b.split_to(at);
        assert!(o.as_ptr() as usize == p && b.as_ptr() as usize == p + at && o.len() == at && b.len() == g.len - at);
        core::mem::forget(o);
    } else if op == 2 {
        kani::assume(at >= 1 && at < g.len);
        let o = b.split_off(at);
        let (ol, oc) = (o.len(), o.capacity());
        b.unsplit(o);
        assert!(b.as_ptr() as usize == p && b.len() == at + ol && b.capacity() == at + oc);
    } else {
        kani::assume(g.len > 0);
        let f = b.freeze();
        assert!(f.as_ptr() as usize == p && f.len() == g.len);
        core::mem::forget(f);
        let j: usize = kani::any();
        if j < vcap { assert!(unsafe { *base.add(j) } == data[j]); }
        return;
    }
    let j: usize = kani::any();
    if j < vcap { assert!(unsafe { *base.add(j) } == data[j]); }
    core::mem::forget(b);
}

// @ob props=C01,C03,C08,C18 tier=quick kind=Kbounded bound="allocation size 8" fns=shared_v_to_mut,release_shared,From<Bytes>for_BytesMut
#[kani::proof]
#[kani::unwind(10)]
fn kx_sharedv_into_mut_shared_copies() {
    // frozen view that is NOT unique: Into<BytesMut> copies and gives up exactly one reference
    let (base, vcap) = alloc_fixed(8);
    let data = fill(base, vcap);
    let (b, g) = sharedv_on(base, vcap, 2);
    let m: BytesMut = b.into();
    assert!(m.len() == g.len && (g.len == 0 || m.as_ptr() as usize != base as usize + g.off));
    let i: usize = kani::any();
    if i < g.len { assert!(m[i] == data[g.off + i]); }
    assert!(count(&g) == 1 && block_intact(&g));
    let j: usize = kani::any();
    if j < vcap { assert!(unsafe { *base.add(j) } == data[j]); }
    drop(m);
}
