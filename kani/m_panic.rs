// @parent src/bytes_mut.rs
// C13 for BytesMut: out-of-contract arguments reach exactly the documented panic, nothing written
// before it (see b_panic.rs for the wrapper pattern).
#![allow(unused_imports, unused_variables, unused_mut)]
use super::verif_m_wf::*;
use super::*;

#[kani::requires(at > b.cap)]
#[kani::modifies()]
#[kani::ensures(|_r| false)]
fn m_split_off_oob(b: &mut BytesMut, at: usize) -> BytesMut { b.split_off(at) }

#[kani::requires(at > b.len)]
#[kani::modifies()]
#[kani::ensures(|_r| false)]
fn m_split_to_oob(b: &mut BytesMut, at: usize) -> BytesMut { b.split_to(at) }

#[kani::requires(n > b.len)]
#[kani::modifies()]
#[kani::ensures(|_r| false)]
fn m_advance_oob(b: &mut BytesMut, n: usize) { Buf::advance(b, n) }

#[kani::requires(n > b.cap - b.len)]
#[kani::modifies()]
#[kani::ensures(|_r| false)]
fn m_advance_mut_oob(b: &mut BytesMut, n: usize) { unsafe { b.advance_mut(n) } }

fn any_m() -> (BytesMut, MGhost) {
    if kani::any() { any_marc() } else { any_mvec() }
}

// @ob props=C13,C02,C04 tier=thorough kind=Kinf expect="panic:BytesMut::split_off$" fns=BytesMut::split_off timeout=1200
#[kani::proof_for_contract(m_split_off_oob)]
fn kx_panic_m_split_off() {
    let (mut b, g) = any_m();
    let at: usize = kani::any();
    let r = m_split_off_oob(&mut b, at);
    core::mem::forget(r);
    core::mem::forget(b);
}

// @ob props=C13,C02,C04 tier=thorough kind=Kinf expect="panic:BytesMut::split_to$" fns=BytesMut::split_to timeout=1200
#[kani::proof_for_contract(m_split_to_oob)]
fn kx_panic_m_split_to() {
    let (mut b, g) = any_m();
    let at: usize = kani::any();
    let r = m_split_to_oob(&mut b, at);
    core::mem::forget(r);
    core::mem::forget(b);
}

// @ob props=C13,C02,C09 tier=thorough kind=Kinf expect="panic:BytesMut as .*Buf>::advance$" fns=BytesMut::advance timeout=1200
#[kani::proof_for_contract(m_advance_oob)]
fn kx_panic_m_advance() {
    let (mut b, g) = any_m();
    let n: usize = kani::any();
    m_advance_oob(&mut b, n);
    core::mem::forget(b);
}

// @ob props=C13,C02,C11 tier=thorough kind=Kinf expect="panic:panic_advance$" fns=BytesMut::advance_mut timeout=1200
#[kani::proof_for_contract(m_advance_mut_oob)]
fn kx_panic_m_advance_mut() {
    let (mut b, g) = any_m();
    let n: usize = kani::any();
    m_advance_mut_oob(&mut b, n);
    core::mem::forget(b);
}

// ---- quick frame obligations: the same wrappers on an 8-byte allocation (cheap for
// proof_for_contract); offset / len / cap / refcount stay symbolic, both representations.
// "Nothing written before the panic" is thereby decided on every change (seeds C13-5/6 showed that
// the plain quick variant below cannot see a write that precedes the panic).
fn any_m8() -> (BytesMut, MGhost) {
    let (base, vcap) = alloc_fixed(8);
    if kani::any() { marc_on(base, vcap, any_count()) } else { mvec_on(base, vcap) }
}

// @ob props=C13,C02,C04 tier=quick kind=Kbounded bound="allocation size 8" expect="panic:(BytesMut::split_off|BytesMut::split_to|BytesMut as .*Buf>::advance|panic_advance)$" fns=BytesMut::split_off timeout=900
#[kani::proof_for_contract(m_split_off_oob)]
fn kx_panic_m_split_off_frame_k8() {
    let (mut b, g) = any_m8();
    let at: usize = kani::any();
    let r = m_split_off_oob(&mut b, at);
    core::mem::forget(r);
    core::mem::forget(b);
}

// @ob props=C13,C02,C04 tier=quick kind=Kbounded bound="allocation size 8" expect="panic:(BytesMut::split_off|BytesMut::split_to|BytesMut as .*Buf>::advance|panic_advance)$" fns=BytesMut::split_to timeout=900
#[kani::proof_for_contract(m_split_to_oob)]
fn kx_panic_m_split_to_frame_k8() {
    let (mut b, g) = any_m8();
    let at: usize = kani::any();
    let r = m_split_to_oob(&mut b, at);
    core::mem::forget(r);
    core::mem::forget(b);
}

// @ob props=C13,C02,C09 tier=quick kind=Kbounded bound="allocation size 8" expect="panic:(BytesMut::split_off|BytesMut::split_to|BytesMut as .*Buf>::advance|panic_advance)$" fns=BytesMut::advance timeout=900
#[kani::proof_for_contract(m_advance_oob)]
fn kx_panic_m_advance_frame_k8() {
    let (mut b, g) = any_m8();
    let n: usize = kani::any();
    m_advance_oob(&mut b, n);
    core::mem::forget(b);
}

// @ob props=C13,C02,C11 tier=quick kind=Kbounded bound="allocation size 8" expect="panic:(BytesMut::split_off|BytesMut::split_to|BytesMut as .*Buf>::advance|panic_advance)$" fns=BytesMut::advance_mut timeout=900
#[kani::proof_for_contract(m_advance_mut_oob)]
fn kx_panic_m_advance_mut_frame_k8() {
    let (mut b, g) = any_m8();
    let n: usize = kani::any();
    m_advance_mut_oob(&mut b, n);
    core::mem::forget(b);
}

// ---- quick variant (see b_panic.rs) -----------------------------------------------------------

// @ob props=C13,C02,C04 tier=quick kind=Kinf expect="panic:(BytesMut::split_off|BytesMut::split_to|BytesMut as .*Buf>::advance|panic_advance)$" fns=BytesMut::split_off,BytesMut::split_to,BytesMut::advance,BytesMut::advance_mut
#[kani::proof]
fn kx_panic_bytes_mut_quick() {
    let (mut b, g) = any_m();
    let a: usize = kani::any();
    let op: u8 = kani::any();
    if op == 0 {
        kani::assume(a > g.cap);
        let r = b.split_off(a);
        core::mem::forget(r);
    } else if op == 1 {
        kani::assume(a > g.len);
        let r = b.split_to(a);
        core::mem::forget(r);
    } else if op == 2 {
        kani::assume(a > g.len);
        Buf::advance(&mut b, a);
    } else {
        kani::assume(a > g.cap - g.len);
        unsafe { b.advance_mut(a) };
    }
    core::mem::forget(b);
    assert!(false, "returned for an out-of-contract argument");
}

// ---- reserve with an unrepresentable size: nothing written before the panic (non-unique shared form) ----
#[kani::requires(n > isize::MAX as usize && n <= usize::MAX - b.len)]
#[kani::modifies()]
#[kani::ensures(|_r| false)]
fn m_reserve_unrepresentable(b: &mut BytesMut, n: usize) { b.reserve(n) }

// @ob props=C13,C03,C02 tier=thorough kind=Kinf expect="panic:(capacity_overflow$|handle_error)" timeout=3000 fns=BytesMut::reserve,BytesMut::reserve_inner
#[kani::proof_for_contract(m_reserve_unrepresentable)]
fn kx_panic_m_reserve_shared_nothing_written() {
    // another handle exists (count 2): reserve must allocate, and the allocation request panics with
    // "capacity overflow".  Until then NOTHING may have been written - in particular this handle's
    // reference must not have been given up yet, or the caught panic leaves a handle that no longer
    // owns a share of the storage it points to (seed C13-3)
    let (base, vcap) = alloc_sym();
    let (mut b, g) = marc_on(base, vcap, 2);
    let n: usize = kani::any();
    m_reserve_unrepresentable(&mut b, n);
    core::mem::forget(b);
}
