// @props C18
// Bounded-memory lemma for a recycling BytesMut WITH a retention window (C18, second clause:
// split-off parts may be dropped "a bounded number of rounds after" the next refill).
// No code here.  As in recycle.rs, `reserve_unique` is the reading of the reserve_inner contract
// for a sole owner (Appendix B; branch decisions discharged on the real code by
// kx_marc_unique_try_reclaim / kx_marc_unique_reserve / kx_mvec_*), and `reserve_shared` the
// reading of its not-unique branch (kx_marc_shared_reserve: a fresh inline-Vec buffer of capacity
// max(len + n, original_capacity), the old block released AFTER the copy).  ASSUMED: the growth
// bound of Vec::reserve (want <= cap' <= max(want, 8)) and Vec::with_capacity(c).capacity() <=
// max(c, 8).
//
// Abstract state at the start of round r: the handle's allocation (vc), front offset (o), length
// (l), the round `since` at which this allocation became the handle's, and for every earlier
// round j whose split-off part is still alive the size of the allocation that part keeps alive
// (`parts[j]`).  A part made in round j is dropped before the reserve of round j + k + 1 at the
// latest (k = retention window; k == 0 is recycle.rs).  Live heap memory at any round boundary is
// at most  vc + sum of parts[j]  (blocks shared by several parts are counted once per part, which
// only makes the bound weaker).
use vstd::prelude::*;
verus! {

pub struct W {
    pub vc: nat, pub o: nat, pub l: nat,
    pub since: int,
    pub r: int,
    pub parts: Map<int, nat>,
}

pub open spec fn max(a: nat, b: nat) -> nat { if a >= b { a } else { b } }

/// the bound on every single allocation: first allocation, 4 x the round size, the handle's
/// original capacity (a constant of the history: original_capacity_repr is inherited), 8
pub open spec fn bound(c0: nat, m: nat, oc: nat) -> nat { max(max(max(c0, 4 * m), oc), 8) }

/// parts still alive at the reserve of round r: made in rounds r-k .. r-1
pub open spec fn alive(s: W, k: nat, j: int) -> bool { s.parts.dom().contains(j) && s.r - k <= j < s.r }

/// the handle is the only one on its allocation: no live part was made since it moved there
pub open spec fn unique(s: W, k: nat) -> bool { forall |j: int| alive(s, k, j) ==> j < s.since }

pub open spec fn reserve_unique(s: W, n: nat, t: W) -> bool {
    let nc = s.l + n;
    &&& t.l == s.l && t.since == s.since
    &&& if s.vc - s.o >= nc { t.vc == s.vc && t.o == s.o }
        else if s.vc >= nc && s.o >= s.l { t.vc == s.vc && t.o == 0 }
        else { let want = max(2 * s.vc, nc + s.o); t.o == s.o && want <= t.vc <= max(want, 8) }
}

pub open spec fn reserve_shared(s: W, n: nat, oc: nat, t: W) -> bool {
    let nc = s.l + n;
    &&& t.l == s.l
    &&& if s.vc - s.o - s.l >= n {
            // fast path of reserve: enough spare capacity behind the view, nothing happens
            t.vc == s.vc && t.o == s.o && t.since == s.since
        } else {
            // fresh buffer; the old allocation stays alive exactly as long as its parts
            t.o == 0 && t.since == s.r && max(nc, oc) <= t.vc <= max(max(nc, oc), 8)
        }
}

pub open spec fn reserve_step(s: W, k: nat, n: nat, oc: nat, t: W) -> bool {
    if unique(s, k) { reserve_unique(s, n, t) } else { reserve_shared(s, n, oc, t) }
}

/// one round: expire old parts, reserve(n), append n, consume `at` from the front; if `keep`
/// the consumed part stays alive (for at most k more rounds) on the allocation it was cut from
pub open spec fn round(s: W, k: nat, n: nat, at: nat, keep: bool, oc: nat, u: W) -> bool {
    exists |t: W| {
        &&& #[trigger] reserve_step(s, k, n, oc, t)
        &&& t.vc - t.o >= t.l + n                      // reserve's promise
        &&& at <= t.l + n
        &&& u.vc == t.vc && u.o == t.o + at && u.l == t.l + n - at && u.since == t.since
        &&& u.r == s.r + 1
        &&& (forall |j: int| j < s.r ==> (u.parts.dom().contains(j) <==> alive(s, k, j)) && (alive(s, k, j) ==> u.parts[j] == s.parts[j]))
        &&& (u.parts.dom().contains(s.r) <==> keep)
        &&& (keep ==> u.parts[s.r] == t.vc)
        &&& (forall |j: int| j > s.r ==> !u.parts.dom().contains(j))
    }
}

pub open spec fn good(s: W, k: nat, m: nat, c0: nat, oc: nat) -> bool {
    &&& s.o + s.l <= s.vc
    &&& s.l <= m
    &&& s.vc <= bound(c0, m, oc)
    &&& s.since <= s.r
    &&& forall |j: int| s.parts.dom().contains(j) ==> j < s.r && s.parts[j] <= bound(c0, m, oc)
}

pub proof fn lemma_round(s: W, k: nat, n: nat, at: nat, keep: bool, oc: nat, u: W, m: nat, c0: nat)
    requires good(s, k, m, c0, oc), s.l + n <= m, round(s, k, n, at, keep, oc, u)
    ensures good(u, k, m, c0, oc),
        // only parts of the last k+1 rounds are alive afterwards
        forall |j: int| u.parts.dom().contains(j) ==> u.r - 1 - k <= j < u.r,
{
    let t = choose |t: W| {
        &&& #[trigger] reserve_step(s, k, n, oc, t)
        &&& t.vc - t.o >= t.l + n
        &&& at <= t.l + n
        &&& u.vc == t.vc && u.o == t.o + at && u.l == t.l + n - at && u.since == t.since
        &&& u.r == s.r + 1
        &&& (forall |j: int| j < s.r ==> (u.parts.dom().contains(j) <==> alive(s, k, j)) && (alive(s, k, j) ==> u.parts[j] == s.parts[j]))
        &&& (u.parts.dom().contains(s.r) <==> keep)
        &&& (keep ==> u.parts[s.r] == t.vc)
        &&& (forall |j: int| j > s.r ==> !u.parts.dom().contains(j))
    };
    let nc = s.l + n;
    let b = bound(c0, m, oc);
    assert(b >= 4 * m && b >= oc && b >= 8 && b >= s.vc);
    assert(reserve_step(s, k, n, oc, t));
    if unique(s, k) {
        assert(reserve_unique(s, n, t));
        if !(s.vc - s.o >= nc) && !(s.vc >= nc && s.o >= s.l) {
            // growth happens only below 2m (else the bytes could be moved to the front)
            assert(s.vc < 2 * m);
            assert(max(2 * s.vc, nc + s.o) <= 4 * m);
        }
    } else {
        assert(reserve_shared(s, n, oc, t));
    }
    assert(t.vc <= b);
    assert forall |j: int| u.parts.dom().contains(j) implies j < u.r && u.parts[j] <= bound(c0, m, oc) && u.r - 1 - k <= j by {
        if j < s.r { assert(alive(s, k, j)); }
        else if j > s.r { assert(false); }
    }
}

/// sum of the sizes kept alive by parts made in rounds lo .. hi-1
pub open spec fn held(parts: Map<int, nat>, lo: int, hi: int) -> nat
    decreases hi - lo
{
    if lo >= hi { 0 } else { held(parts, lo, hi - 1) + (if parts.dom().contains(hi - 1) { parts[hi - 1] } else { 0 }) }
}

pub proof fn lemma_held_bounded(parts: Map<int, nat>, lo: int, hi: int, b: nat)
    requires lo <= hi, forall |j: int| parts.dom().contains(j) ==> parts[j] <= b
    ensures held(parts, lo, hi) <= (hi - lo) * b
    decreases hi - lo
{
    if lo < hi {
        lemma_held_bounded(parts, lo, hi - 1, b);
        assert((hi - lo) * b == (hi - 1 - lo) * b + b) by (nonlinear_arith);
    }
}

/// upper bound of the live heap memory at a round boundary
pub open spec fn live_upper(s: W, k: nat) -> nat { s.vc + held(s.parts, s.r - 1 - k, s.r) }

pub open spec fn rounds(states: Seq<W>, k: nat, ns: Seq<nat>, ats: Seq<nat>, keeps: Seq<bool>, oc: nat, m: nat) -> bool {
    &&& states.len() == ns.len() + 1 && ats.len() == ns.len() && keeps.len() == ns.len()
    &&& forall |i: int| 0 <= i < ns.len() ==> #[trigger] round(states[i], k, ns[i], ats[i], keeps[i], oc, states[i + 1]) && states[i].l + ns[i] <= m
}

/// for ANY number of rounds and ANY choice of which parts are kept (each for at most k rounds):
/// every allocation stays below `bound` and the live heap memory below (k + 2) * bound
pub proof fn theorem_peak_bounded_with_retention(states: Seq<W>, k: nat, ns: Seq<nat>, ats: Seq<nat>, keeps: Seq<bool>, oc: nat, m: nat, c0: nat, i: int)
    requires rounds(states, k, ns, ats, keeps, oc, m), good(states[0], k, m, c0, oc), states[0].parts.dom() =~= Set::<int>::empty(), 0 <= i <= ns.len()
    ensures good(states[i], k, m, c0, oc),
        forall |j: int| states[i].parts.dom().contains(j) ==> states[i].r - 1 - k <= j < states[i].r,
        live_upper(states[i], k) <= (k + 2) * bound(c0, m, oc)
    decreases i
{
    let b = bound(c0, m, oc);
    if i > 0 {
        theorem_peak_bounded_with_retention(states, k, ns, ats, keeps, oc, m, c0, i - 1);
        assert(round(states[i - 1], k, ns[i - 1], ats[i - 1], keeps[i - 1], oc, states[i - 1 + 1]));
        lemma_round(states[i - 1], k, ns[i - 1], ats[i - 1], keeps[i - 1], oc, states[i], m, c0);
    }
    let s = states[i];
    lemma_held_bounded(s.parts, s.r - 1 - k, s.r, b);
    assert((k + 2) * b == b + (k + 1) * b) by (nonlinear_arith);
    assert((s.r - (s.r - 1 - k)) * b == (k + 1) * b) by (nonlinear_arith);
}

/// consistency with recycle.rs: with no part kept alive the handle is always unique, i.e. every
/// round is a `reserve_unique` round
pub proof fn lemma_no_retention_is_unique(s: W, k: nat)
    requires s.parts.dom() =~= Set::<int>::empty()
    ensures unique(s, k)
{
}

/// vacuity guards: both kinds of round exist (a contradictory `round` would make the theorem empty)
pub proof fn witness_unique_round()
    ensures exists |s: W, u: W| good(s, 1, 16, 64, 64) && unique(s, 1) && #[trigger] round(s, 1, 8, 8, true, 64, u)
{
    let s = W { vc: 64, o: 0, l: 0, since: 0, r: 0, parts: Map::empty() };
    let t = W { vc: 64, o: 0, l: 0, since: 0, r: 0, parts: Map::empty() };
    let u = W { vc: 64, o: 8, l: 0, since: 0, r: 1, parts: Map::empty().insert(0int, 64nat) };
    assert(reserve_step(s, 1, 8, 64, t));
    assert(round(s, 1, 8, 8, true, 64, u));
}

pub proof fn witness_shared_round()
    ensures exists |s: W, u: W| good(s, 1, 16, 64, 64) && !unique(s, 1) && #[trigger] round(s, 1, 8, 8, false, 64, u) && u.since == s.r
{
    // the part of round 0 is still alive at the reserve of round 1 and the spare room is too small
    let s = W { vc: 64, o: 60, l: 0, since: 0, r: 1, parts: Map::empty().insert(0int, 64nat) };
    let t = W { vc: 64, o: 0, l: 0, since: 1, r: 1, parts: s.parts };
    let u = W { vc: 64, o: 8, l: 0, since: 1, r: 2, parts: Map::empty().insert(0int, 64nat) };
    assert(alive(s, 1, 0));
    assert(!unique(s, 1));
    assert(reserve_shared(s, 8, 64, t));
    assert(reserve_step(s, 1, 8, 64, t));
    assert(round(s, 1, 8, 8, false, 64, u));
}

} // verus!
fn main() {}
