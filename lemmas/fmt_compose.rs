// @props C15
// Composition lemma for the Debug rendering (C15): if the output of `{:?}` is
//     b"  esc(b_0) esc(b_1) ... esc(b_{n-1})  "
// with `esc` the escape table below (the SAME table as `esc` in kani/f_fmt.rs, against which the
// real fmt code is proved for all single bytes and all byte pairs), then parsing the body as a Rust
// byte-string literal yields exactly b_0 .. b_{n-1}, for every length n.
// Premise taken from the source, not proved here: the loop `for &b in self.0 { write!(..)?; }`
// carries no state between bytes (the two-byte Kani obligation checks it for adjacent pairs).
use vstd::prelude::*;
verus! {

pub open spec fn hexdigit(v: u8) -> u8 { if v < 10 { (48 + v) as u8 } else { (97 + (v - 10)) as u8 } }

pub open spec fn hexval(c: u8) -> Option<u8> {
    if 48 <= c <= 57 { Some((c - 48) as u8) }
    else if 97 <= c <= 102 { Some((c - 97 + 10) as u8) }
    else if 65 <= c <= 70 { Some((c - 65 + 10) as u8) }
    else { None }
}

/// escape table: \n \r \t \\ \" \0, printable ASCII raw, everything else \xHH (lower-case)
pub open spec fn esc(b: u8) -> Seq<u8> {
    if b == 10 { seq![92u8, 110u8] }
    else if b == 13 { seq![92u8, 114u8] }
    else if b == 9 { seq![92u8, 116u8] }
    else if b == 92 { seq![92u8, 92u8] }
    else if b == 34 { seq![92u8, 34u8] }
    else if b == 0 { seq![92u8, 48u8] }
    else if 0x20 <= b < 0x7f { seq![b] }
    else { seq![92u8, 120u8, hexdigit(b >> 4), hexdigit(b & 15)] }
}

/// one element of a byte-string literal body: (byte, chars consumed)  (Rust reference grammar)
pub open spec fn decode_one(s: Seq<u8>) -> Option<(u8, nat)> {
    if s.len() == 0 { None }
    else if s[0] == 92 {
        if s.len() < 2 { None }
        else if s[1] == 110 { Some((10u8, 2nat)) }
        else if s[1] == 114 { Some((13u8, 2nat)) }
        else if s[1] == 116 { Some((9u8, 2nat)) }
        else if s[1] == 92 { Some((92u8, 2nat)) }
        else if s[1] == 48 { Some((0u8, 2nat)) }
        else if s[1] == 34 { Some((34u8, 2nat)) }
        else if s[1] == 39 { Some((39u8, 2nat)) }
        else if s[1] == 120 {
            if s.len() < 4 { None }
            else { match (hexval(s[2]), hexval(s[3])) { (Some(h), Some(l)) => Some(((h * 16 + l) as u8, 4nat)), _ => None } }
        } else { None }
    }
    else if s[0] == 34 || s[0] == 13 || s[0] >= 0x80 { None }
    else { Some((s[0], 1nat)) }
}

pub open spec fn render(bytes: Seq<u8>) -> Seq<u8>
    decreases bytes.len()
{
    if bytes.len() == 0 { Seq::empty() } else { esc(bytes[0]) + render(bytes.skip(1)) }
}

/// decode a whole literal body; None if it is not a valid body
pub open spec fn decode(s: Seq<u8>) -> Option<Seq<u8>>
    decreases s.len()
{
    if s.len() == 0 { Some(Seq::empty()) }
    else {
        match decode_one(s) {
            None => None,
            Some((b, n)) => if n == 0 || n > s.len() { None } else {
                match decode(s.skip(n as int)) { None => None, Some(rest) => Some(seq![b] + rest) }
            }
        }
    }
}

proof fn lemma_hex(v: u8)
    requires v < 16
    ensures hexval(hexdigit(v)) == Some(v)
{}

proof fn lemma_nibbles(b: u8)
    ensures (b >> 4) < 16, (b & 15) < 16, ((b >> 4) * 16 + (b & 15)) as u8 == b
{
    assert((b >> 4) < 16 && (b & 15) < 16 && ((b >> 4) * 16 + (b & 15)) as u8 == b) by (bit_vector);
}

/// every escape is self-delimiting: whatever follows it, the decoder reads back exactly that byte
/// and consumes exactly the escape
pub proof fn lemma_esc_self_delimiting(b: u8, rest: Seq<u8>)
    ensures decode_one(esc(b) + rest) == Some((b, esc(b).len())), esc(b).len() >= 1
{
    let s = esc(b) + rest;
    lemma_nibbles(b);
    lemma_hex(b >> 4);
    lemma_hex(b & 15);
    if b == 10 || b == 13 || b == 9 || b == 92 || b == 34 || b == 0 {
        assert(s[0] == 92);
        assert(s[1] == esc(b)[1]);
    } else if 0x20 <= b < 0x7f {
        assert(s[0] == b);
    } else {
        assert(s[0] == 92 && s[1] == 120 && s[2] == hexdigit(b >> 4) && s[3] == hexdigit(b & 15));
    }
}

/// C15: the rendering of ANY byte string decodes to exactly that byte string
pub proof fn theorem_debug_round_trip(bytes: Seq<u8>)
    ensures decode(render(bytes)) == Some(bytes)
    decreases bytes.len()
{
    if bytes.len() == 0 {
        assert(render(bytes) =~= Seq::<u8>::empty());
        assert(bytes =~= Seq::<u8>::empty());
    } else {
        let b = bytes[0];
        let tail = bytes.skip(1);
        let s = render(bytes);
        lemma_esc_self_delimiting(b, render(tail));
        theorem_debug_round_trip(tail);
        assert(s == esc(b) + render(tail));
        assert(s.skip(esc(b).len() as int) =~= render(tail));
        assert(seq![b] + tail =~= bytes);
    }
}

/// the rendered body never contains an unescaped quote, so the closing quote ends the literal
pub proof fn lemma_body_has_no_bare_quote(b: u8)
    ensures forall |i: int| 0 <= i < esc(b).len() && #[trigger] esc(b)[i] == 34 ==> i == 1 && esc(b)[0] == 92
{
    lemma_nibbles(b);
    assert forall |i: int| 0 <= i < esc(b).len() && #[trigger] esc(b)[i] == 34 implies i == 1 && esc(b)[0] == 92 by {
        if !(b == 10 || b == 13 || b == 9 || b == 92 || b == 34 || b == 0) && !(0x20 <= b < 0x7f) {
            assert(hexdigit(b >> 4) != 34 && hexdigit(b & 15) != 34);
        }
    }
}

} // verus!
fn main() {}
