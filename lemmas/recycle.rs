// @props C18
// Bounded-memory lemma for a recycling BytesMut (C18, restricted claim: every split-off / consumed
// part is dropped before the next refill, i.e. the handle is the sole owner at `reserve` time).
// No code here: `reserve_step` is the reading of the reserve_inner contract (DESIGN.md Appendix B;
// branches discharged on the real code by kx_mvec_reserve / kx_marc_unique_reserve /
// kx_*_try_reclaim), with the growth bound of Vec::reserve ASSUMED
//     want <= cap' <= max(2*cap, want, 8),    want = offset + len + additional.
// Abstract state: vc = allocation size, o = front offset of the view, l = length, allocs = number
// of byte-buffer allocations so far.  One round = reserve(n); append n; consume `at` bytes from the
// front (split_to / split / advance; truncate is at == 0 with a shorter tail).
use vstd::prelude::*;
use vstd::arithmetic::power2::*;
verus! {

pub struct R { pub vc: nat, pub o: nat, pub l: nat, pub allocs: nat }

pub open spec fn max(a: nat, b: nat) -> nat { if a >= b { a } else { b } }

pub open spec fn reserve_step(s: R, n: nat, t: R) -> bool {
    let nc = s.l + n;
    &&& s.o + s.l <= s.vc
    &&& t.l == s.l
    &&& if s.vc - s.o >= nc {
            // enough room behind the view: nothing moves, nothing is allocated
            t.vc == s.vc && t.o == s.o && t.allocs == s.allocs
        } else if s.vc >= nc && s.o >= s.l {
            // reclaim: the bytes are moved to the front of the same allocation
            t.vc == s.vc && t.o == 0 && t.allocs == s.allocs
        } else {
            // grow: at least doubles (or fits the request), offset kept
            let want = max(2 * s.vc, nc + s.o);
            &&& t.o == s.o
            &&& t.allocs == s.allocs + 1
            &&& want <= t.vc <= max(want, 8)
        }
}

pub open spec fn consume_step(s: R, n: nat, at: nat, t: R) -> bool {
    &&& at <= s.l + n
    &&& t.vc == s.vc && t.allocs == s.allocs
    &&& t.o == s.o + at
    &&& t.l == s.l + n - at
}

/// one round of the recycling loop; the first conjunct of the last line is reserve's promise
pub open spec fn round(s: R, n: nat, at: nat, u: R) -> bool {
    exists |t: R| #[trigger] reserve_step(s, n, t) && consume_step(t, n, at, u) && t.vc - t.o >= t.l + n
}

/// m bounds what one round holds (leftover + new message); c0 is the first allocation's size
pub open spec fn good(s: R, m: nat, c0: nat) -> bool {
    &&& s.o + s.l <= s.vc
    &&& s.l <= m
    &&& s.vc <= max(max(c0, 4 * m), 8)
}

pub proof fn lemma_round(s: R, n: nat, at: nat, u: R, m: nat, c0: nat)
    requires good(s, m, c0), s.l + n <= m, round(s, n, at, u)
    ensures
        good(u, m, c0),
        u.vc >= s.vc,
        // (i) once the allocation is at least 2m, no reserve allocates
        s.vc >= 2 * m ==> u.allocs == s.allocs,
        // (ii) an allocating reserve at least doubles the allocation
        u.allocs > s.allocs ==> u.vc >= 2 * s.vc && u.allocs == s.allocs + 1,
        u.allocs == s.allocs ==> u.vc == s.vc,
{
    let t = choose |t: R| #[trigger] reserve_step(s, n, t) && consume_step(t, n, at, u) && t.vc - t.o >= t.l + n;
    assert(reserve_step(s, n, t));
}

pub open spec fn rounds(states: Seq<R>, ns: Seq<nat>, ats: Seq<nat>, m: nat) -> bool {
    &&& states.len() == ns.len() + 1
    &&& ats.len() == ns.len()
    &&& forall |i: int| 0 <= i < ns.len() ==> #[trigger] round(states[i], ns[i], ats[i], states[i + 1]) && states[i].l + ns[i] <= m
}

/// (iii) peak memory: for ANY number of rounds the allocation never exceeds max(c0, 4m, 8)
pub proof fn theorem_peak_bounded(states: Seq<R>, ns: Seq<nat>, ats: Seq<nat>, m: nat, c0: nat, k: int)
    requires rounds(states, ns, ats, m), good(states[0], m, c0), 0 <= k <= ns.len()
    ensures good(states[k], m, c0), states[k].vc <= max(max(c0, 4 * m), 8)
    decreases k
{
    if k > 0 {
        theorem_peak_bounded(states, ns, ats, m, c0, k - 1);
        assert(round(states[k - 1], ns[k - 1], ats[k - 1], states[k - 1 + 1]));
        lemma_round(states[k - 1], ns[k - 1], ats[k - 1], states[k], m, c0);
    }
}

/// (ii') allocations: if d doublings of the current allocation reach 2m, then at most d more
/// byte-buffer allocations happen, however many rounds follow
pub proof fn theorem_allocations_bounded(states: Seq<R>, ns: Seq<nat>, ats: Seq<nat>, m: nat, c0: nat, j: int, k: int, d: nat)
    requires
        rounds(states, ns, ats, m), good(states[0], m, c0),
        0 <= j <= k <= ns.len(),
        pow2(d) * states[j].vc >= 2 * m,
    ensures states[k].allocs <= states[j].allocs + d
    decreases k - j
{
    if j < k {
        theorem_peak_bounded(states, ns, ats, m, c0, j);
        assert(round(states[j], ns[j], ats[j], states[j + 1]));
        lemma_round(states[j], ns[j], ats[j], states[j + 1], m, c0);
        let s = states[j];
        let u = states[j + 1];
        if u.allocs == s.allocs {
            theorem_allocations_bounded(states, ns, ats, m, c0, j + 1, k, d);
        } else {
            // an allocation happened: vc < 2m, so d >= 1, and the allocation doubled
            if d == 0 {
                lemma2_to64();
                assert(pow2(0) == 1);
                assert(s.vc >= 2 * m);
                assert(false);
            }
            let d1 = (d - 1) as nat;
            lemma_pow2_unfold(d);
            assert(pow2(d) == 2 * pow2(d1));
            assert(pow2(d1) * u.vc >= 2 * m) by (nonlinear_arith)
                requires u.vc >= 2 * s.vc, 2 * pow2(d1) * s.vc >= 2 * m;
            theorem_allocations_bounded(states, ns, ats, m, c0, j + 1, k, d1);
        }
    }
}

/// "in particular": an empty handle that is alone on a buffer that is large enough never allocates
pub proof fn lemma_empty_sole_owner_never_allocates(s: R, n: nat, t: R)
    requires reserve_step(s, n, t), s.l == 0, n <= s.vc
    ensures t.allocs == s.allocs
{
}

} // verus!
fn main() {}
