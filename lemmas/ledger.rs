// @props C01,C03,C04,C08
// Lemma layer: lifts the per-function contracts (DESIGN.md Appendix B; discharged on the real code by
// the Kani obligations in kani/b_*.rs and kani/m_*.rs) to ALL histories.  No code of the crate here:
// the transition relation below is the *reading* of those contracts, one `step_*` per contract class:
//
//   step_alloc    constructors that allocate / adopt a buffer (from Vec/Box, copy_from_slice,
//                 with_capacity, zeroed, the copying conversions, reserve's allocating branches)
//   step_share    Bytes clone / slice / slice_ref, the sharing half of split_off / split_to
//   step_narrow   advance, truncate, clear, the self half of split_off / split_to, set_len down
//   step_split    BytesMut::split_off / split_to / split
//   step_write    any write through a BytesMut into its own region (incl. spare capacity)
//   step_set_len  advance_mut / extend within capacity / resize after the writes
//   step_freeze   BytesMut::freeze        step_thaw  unique Bytes -> BytesMut / try_into_mut
//   step_drop     drop and the consuming conversions into Vec<u8>
//   step_reclaim  the non-allocating branches of reserve_inner / try_reclaim (sole owner)
//   step_unsplit  try_unsplit of adjacent halves
//
// Proved for every finite history, any interleaving of handles and any drop order:
//   L-inv    the reference count of an allocation is the number of live handles on it; an
//            allocation is live iff it has a handle; it is released exactly once, when the last
//            handle goes (C03)
//   L-excl   regions [off, off+cap) of mutable handles are disjoint from every other handle's
//            region on the same allocation and inside the allocation (C04)
//   L-value  what every handle reads from memory equals an independent per-handle value that only
//            operations ON THAT HANDLE change (C01)
//   L-unique count == 1 iff no other handle refers to the allocation (C08)
use vstd::prelude::*;
use vstd::set_lib::*;
verus! {

pub struct Alloc { pub cap: nat, pub bytes: Seq<u8>, pub holders: Set<int>, pub live: bool, pub frees: nat }
pub struct Handle { pub alloc: int, pub off: nat, pub len: nat, pub cap: nat, pub mutable: bool }

pub struct Ledger {
    pub allocs: Map<int, Alloc>,
    pub handles: Map<int, Handle>,      // live handles only
    pub value: Map<int, Seq<u8>>,       // reference model: one independent byte string per handle
}

/// the reference count the code keeps is the number of holders (contract of the refcount functions)
pub open spec fn refcnt(l: Ledger, a: int) -> nat { l.allocs[a].holders.len() }

/// what handle h reads from memory
pub open spec fn read(l: Ledger, h: int) -> Seq<u8> {
    let hd = l.handles[h];
    l.allocs[hd.alloc].bytes.subrange(hd.off as int, (hd.off + hd.len) as int)
}

pub open spec fn handle_ok(l: Ledger, h: int) -> bool {
    let hd = l.handles[h];
    &&& l.allocs.dom().contains(hd.alloc)
    &&& l.allocs[hd.alloc].live
    &&& l.allocs[hd.alloc].holders.contains(h)
    &&& hd.len <= hd.cap
    &&& hd.off + hd.cap <= l.allocs[hd.alloc].cap
    &&& (!hd.mutable ==> hd.cap == hd.len)
    &&& l.value.dom().contains(h)
    &&& l.value[h] == read(l, h)                         // L-value
}

pub open spec fn alloc_ok(l: Ledger, a: int) -> bool {
    let al = l.allocs[a];
    &&& al.holders.finite()
    &&& al.bytes.len() == al.cap
    &&& (forall |x: int| al.holders.contains(x) ==> l.handles.dom().contains(x) && l.handles[x].alloc == a)
    &&& (al.live <==> al.holders.len() > 0)
    &&& (al.live ==> al.frees == 0)
    &&& (!al.live ==> al.frees == 1)                     // released exactly once
}

/// the regions [off, off+cap) do not overlap (an empty region overlaps nothing)
pub open spec fn disjoint(x: Handle, y: Handle) -> bool {
    x.cap == 0 || y.cap == 0 || x.off + x.cap <= y.off || y.off + y.cap <= x.off
}

pub open spec fn excl(l: Ledger) -> bool {               // L-excl
    forall |h1: int, h2: int| #![trigger l.handles[h1], l.handles[h2]]
        l.handles.dom().contains(h1) && l.handles.dom().contains(h2) && h1 != h2
        && l.handles[h1].alloc == l.handles[h2].alloc && l.handles[h1].mutable
        ==> disjoint(l.handles[h1], l.handles[h2])
}

pub open spec fn inv(l: Ledger) -> bool {
    &&& (forall |h: int| #[trigger] l.handles.dom().contains(h) ==> handle_ok(l, h))
    &&& (forall |a: int| #[trigger] l.allocs.dom().contains(a) ==> alloc_ok(l, a))
    &&& excl(l)
}

// ------------------------------------------------------------------------------------------------
// transitions
// ------------------------------------------------------------------------------------------------

pub open spec fn step_alloc(l: Ledger, h: int, a: int, bytes: Seq<u8>, len: nat, mutable: bool, l2: Ledger) -> bool {
    &&& !l.handles.dom().contains(h)
    &&& !l.allocs.dom().contains(a)
    &&& len <= bytes.len()
    &&& l2.allocs == l.allocs.insert(a, Alloc { cap: bytes.len(), bytes: bytes, holders: set![h], live: true, frees: 0 })
    &&& l2.handles == l.handles.insert(h, Handle { alloc: a, off: 0, len: len, cap: if mutable { bytes.len() } else { len }, mutable: mutable })
    &&& l2.value == l.value.insert(h, bytes.subrange(0, len as int))
}

pub open spec fn step_share(l: Ledger, h: int, nh: int, lo: nat, n: nat, l2: Ledger) -> bool {
    &&& l.handles.dom().contains(h)
    &&& !l.handles.dom().contains(nh)
    &&& !l.handles[h].mutable
    &&& lo + n <= l.handles[h].len
    &&& {
        let hd = l.handles[h];
        let al = l.allocs[hd.alloc];
        &&& l2.handles == l.handles.insert(nh, Handle { alloc: hd.alloc, off: hd.off + lo, len: n, cap: n, mutable: false })
        &&& l2.allocs == l.allocs.insert(hd.alloc, Alloc { holders: al.holders.insert(nh), ..al })
        &&& l2.value == l.value.insert(nh, l.value[h].subrange(lo as int, (lo + n) as int))
    }
}

pub open spec fn step_narrow(l: Ledger, h: int, lo: nat, n: nat, ncap: nat, l2: Ledger) -> bool {
    &&& l.handles.dom().contains(h)
    &&& lo + n <= l.handles[h].len
    &&& lo + ncap <= l.handles[h].cap
    &&& n <= ncap
    &&& (!l.handles[h].mutable ==> ncap == n)
    &&& {
        let hd = l.handles[h];
        &&& l2.handles == l.handles.insert(h, Handle { off: hd.off + lo, len: n, cap: ncap, ..hd })
        &&& l2.allocs == l.allocs
        &&& l2.value == l.value.insert(h, l.value[h].subrange(lo as int, (lo + n) as int))
    }
}

pub open spec fn min(a: nat, b: nat) -> nat { if a < b { a } else { b } }

pub open spec fn step_split(l: Ledger, h: int, nh: int, at: nat, l2: Ledger) -> bool {
    &&& l.handles.dom().contains(h)
    &&& !l.handles.dom().contains(nh)
    &&& l.handles[h].mutable
    &&& at <= l.handles[h].cap
    &&& {
        let hd = l.handles[h];
        let al = l.allocs[hd.alloc];
        let l1 = min(hd.len, at);
        let r2 = (hd.len - l1) as nat;
        &&& l2.handles == l.handles.insert(h, Handle { len: l1, cap: at, ..hd })
                                   .insert(nh, Handle { alloc: hd.alloc, off: hd.off + at, len: r2, cap: (hd.cap - at) as nat, mutable: true })
        &&& l2.allocs == l.allocs.insert(hd.alloc, Alloc { holders: al.holders.insert(nh), ..al })
        &&& l2.value == l.value.insert(h, l.value[h].subrange(0, l1 as int))
                               .insert(nh, l.value[h].subrange(l1 as int, hd.len as int))
    }
}

pub open spec fn step_write(l: Ledger, h: int, i: nat, b: u8, l2: Ledger) -> bool {
    &&& l.handles.dom().contains(h)
    &&& l.handles[h].mutable
    &&& i < l.handles[h].cap                    // frame of every BytesMut write: its own region only
    &&& {
        let hd = l.handles[h];
        let al = l.allocs[hd.alloc];
        &&& l2.handles == l.handles
        &&& l2.allocs == l.allocs.insert(hd.alloc, Alloc { bytes: al.bytes.update((hd.off + i) as int, b), ..al })
        &&& l2.value == (if i < hd.len { l.value.insert(h, l.value[h].update(i as int, b)) } else { l.value })
    }
}

pub open spec fn step_set_len(l: Ledger, h: int, n: nat, l2: Ledger) -> bool {
    &&& l.handles.dom().contains(h)
    &&& l.handles[h].mutable
    &&& n <= l.handles[h].cap
    &&& {
        let hd = l.handles[h];
        &&& l2.handles == l.handles.insert(h, Handle { len: n, ..hd })
        &&& l2.allocs == l.allocs
        &&& l2.value == l.value.insert(h, l.allocs[hd.alloc].bytes.subrange(hd.off as int, (hd.off + n) as int))
    }
}

pub open spec fn step_freeze(l: Ledger, h: int, l2: Ledger) -> bool {
    &&& l.handles.dom().contains(h)
    &&& l.handles[h].mutable
    &&& l2.handles == l.handles.insert(h, Handle { cap: l.handles[h].len, mutable: false, ..l.handles[h] })
    &&& l2.allocs == l.allocs
    &&& l2.value == l.value
}

pub open spec fn step_thaw(l: Ledger, h: int, ncap: nat, l2: Ledger) -> bool {
    &&& l.handles.dom().contains(h)
    &&& !l.handles[h].mutable
    &&& refcnt(l, l.handles[h].alloc) == 1        // the code's uniqueness test (is_unique)
    &&& l.handles[h].len <= ncap
    &&& l.handles[h].off + ncap <= l.allocs[l.handles[h].alloc].cap
    &&& l2.handles == l.handles.insert(h, Handle { cap: ncap, mutable: true, ..l.handles[h] })
    &&& l2.allocs == l.allocs
    &&& l2.value == l.value
}

pub open spec fn step_drop(l: Ledger, h: int, l2: Ledger) -> bool {
    &&& l.handles.dom().contains(h)
    &&& {
        let hd = l.handles[h];
        let al = l.allocs[hd.alloc];
        &&& l2.handles == l.handles.remove(h)
        &&& l2.value == l.value.remove(h)
        // contract of release_shared / owned_drop_impl / Drop: count k -> k-1, frees iff k == 1
        &&& l2.allocs == l.allocs.insert(hd.alloc, Alloc {
                holders: al.holders.remove(h),
                live: al.holders.len() != 1,
                frees: if al.holders.len() == 1 { al.frees + 1 } else { al.frees },
                ..al })
    }
}

pub open spec fn step_reclaim(l: Ledger, h: int, noff: nat, ncap: nat, bytes2: Seq<u8>, l2: Ledger) -> bool {
    &&& l.handles.dom().contains(h)
    &&& l.handles[h].mutable
    &&& refcnt(l, l.handles[h].alloc) == 1        // reclaim branches are taken only when unique
    &&& {
        let hd = l.handles[h];
        let al = l.allocs[hd.alloc];
        &&& hd.len <= ncap
        &&& noff + ncap <= al.cap
        &&& bytes2.len() == al.cap
        &&& bytes2.subrange(noff as int, (noff + hd.len) as int) == l.value[h]     // contents preserved
        &&& l2.handles == l.handles.insert(h, Handle { off: noff, cap: ncap, ..hd })
        &&& l2.allocs == l.allocs.insert(hd.alloc, Alloc { bytes: bytes2, ..al })
        &&& l2.value == l.value
    }
}

pub open spec fn step_unsplit(l: Ledger, h: int, h2: int, l2: Ledger) -> bool {
    &&& l.handles.dom().contains(h)
    &&& l.handles.dom().contains(h2)
    &&& h != h2
    &&& l.handles[h].mutable && l.handles[h2].mutable
    &&& l.handles[h].alloc == l.handles[h2].alloc                       // same control block
    &&& l.handles[h].off + l.handles[h].len == l.handles[h2].off        // contiguous data
    &&& l.handles[h2].cap > 0
    &&& {
        let hd = l.handles[h];
        let od = l.handles[h2];
        let al = l.allocs[hd.alloc];
        &&& l2.handles == l.handles.remove(h2).insert(h, Handle { len: hd.len + od.len, cap: hd.cap + od.cap, ..hd })
        &&& l2.allocs == l.allocs.insert(hd.alloc, Alloc { holders: al.holders.remove(h2), ..al })
        &&& l2.value == l.value.remove(h2).insert(h, l.value[h] + l.value[h2])
    }
}

pub enum Op {
    Alloc { h: int, a: int, bytes: Seq<u8>, len: nat, mutable: bool },
    Share { h: int, nh: int, lo: nat, n: nat },
    Narrow { h: int, lo: nat, n: nat, ncap: nat },
    Split { h: int, nh: int, at: nat },
    Write { h: int, i: nat, b: u8 },
    SetLen { h: int, n: nat },
    Freeze { h: int },
    Thaw { h: int, ncap: nat },
    Drop { h: int },
    Reclaim { h: int, noff: nat, ncap: nat, bytes2: Seq<u8> },
    Unsplit { h: int, h2: int },
}

pub open spec fn step(l: Ledger, op: Op, l2: Ledger) -> bool {
    match op {
        Op::Alloc { h, a, bytes, len, mutable } => step_alloc(l, h, a, bytes, len, mutable, l2),
        Op::Share { h, nh, lo, n } => step_share(l, h, nh, lo, n, l2),
        Op::Narrow { h, lo, n, ncap } => step_narrow(l, h, lo, n, ncap, l2),
        Op::Split { h, nh, at } => step_split(l, h, nh, at, l2),
        Op::Write { h, i, b } => step_write(l, h, i, b, l2),
        Op::SetLen { h, n } => step_set_len(l, h, n, l2),
        Op::Freeze { h } => step_freeze(l, h, l2),
        Op::Thaw { h, ncap } => step_thaw(l, h, ncap, l2),
        Op::Drop { h } => step_drop(l, h, l2),
        Op::Reclaim { h, noff, ncap, bytes2 } => step_reclaim(l, h, noff, ncap, bytes2, l2),
        Op::Unsplit { h, h2 } => step_unsplit(l, h, h2, l2),
    }
}

/// handles an operation is allowed to change (everything else must keep its value)
pub open spec fn targets(op: Op) -> Set<int> {
    match op {
        Op::Alloc { h, .. } => set![h],
        Op::Share { nh, .. } => set![nh],
        Op::Narrow { h, .. } => set![h],
        Op::Split { h, nh, .. } => set![h, nh],
        Op::Write { h, .. } => set![h],
        Op::SetLen { h, .. } => set![h],
        Op::Freeze { h } => set![h],
        Op::Thaw { h, .. } => set![h],
        Op::Drop { h } => set![h],
        Op::Reclaim { h, .. } => set![h],
        Op::Unsplit { h, h2 } => set![h, h2],
    }
}

// ------------------------------------------------------------------------------------------------
// helper lemmas
// ------------------------------------------------------------------------------------------------

pub proof fn lemma_nonempty(s: Set<int>, x: int)
    requires s.finite(), s.contains(x)
    ensures s.len() > 0
{
    if s.len() == 0 { assert(s =~= Set::empty()); }
}

pub proof fn lemma_set_two(s: Set<int>, a: int, b: int)
    requires s.finite(), s.contains(a), s.contains(b), a != b
    ensures s.len() >= 2
{
    let s1 = s.remove(a);
    assert(s1.contains(b));
    lemma_nonempty(s1, b);
}

/// L-unique: the count is 1 exactly when h is the only handle on its allocation
pub proof fn lemma_unique(l: Ledger, h: int)
    requires inv(l), l.handles.dom().contains(h)
    ensures refcnt(l, l.handles[h].alloc) == 1 <==>
        (forall |x: int| l.handles.dom().contains(x) && l.handles[x].alloc == l.handles[h].alloc ==> x == h)
{
    let a = l.handles[h].alloc;
    let al = l.allocs[a];
    assert(handle_ok(l, h));
    assert(alloc_ok(l, a));
    if al.holders.len() == 1 {
        assert forall |x: int| l.handles.dom().contains(x) && l.handles[x].alloc == a implies x == h by {
            assert(handle_ok(l, x));
            if x != h { lemma_set_two(al.holders, h, x); }
        }
    } else {
        // more than one holder: exhibit another handle
        lemma_nonempty(al.holders, h);
        let s1 = al.holders.remove(h);
        assert(s1.len() >= 1);
        let w = s1.choose();
        assert(s1.contains(w));
        assert(al.holders.contains(w) && w != h);
        assert(l.handles.dom().contains(w) && l.handles[w].alloc == a);
    }
}

// ------------------------------------------------------------------------------------------------
// every transition preserves the invariant
// ------------------------------------------------------------------------------------------------

pub proof fn lemma_alloc(l: Ledger, h: int, a: int, bytes: Seq<u8>, len: nat, mutable: bool, l2: Ledger)
    requires inv(l), step_alloc(l, h, a, bytes, len, mutable, l2)
    ensures inv(l2)
{
    assert forall |x: int| #[trigger] l2.handles.dom().contains(x) implies handle_ok(l2, x) by {
        if x != h {
            assert(l.handles.dom().contains(x));
            assert(handle_ok(l, x));
            assert(l.handles[x].alloc != a);
        } else {
            assert(set![h].contains(h));
        }
    }
    assert forall |b: int| #[trigger] l2.allocs.dom().contains(b) implies alloc_ok(l2, b) by {
        if b != a {
            assert(l.allocs.dom().contains(b));
            assert(alloc_ok(l, b));
            assert forall |x: int| l2.allocs[b].holders.contains(x) implies l2.handles.dom().contains(x) && l2.handles[x].alloc == b by {
                assert(l.handles.dom().contains(x));
                assert(x != h);
            }
        } else {
            assert(set![h].len() == 1) by { assert(set![h] =~= Set::<int>::empty().insert(h)); }
        }
    }
    assert forall |h1: int, h2: int| #![trigger l2.handles[h1], l2.handles[h2]]
        l2.handles.dom().contains(h1) && l2.handles.dom().contains(h2) && h1 != h2
        && l2.handles[h1].alloc == l2.handles[h2].alloc && l2.handles[h1].mutable
        implies disjoint(l2.handles[h1], l2.handles[h2]) by {
        if h1 == h || h2 == h {
            let o = if h1 == h { h2 } else { h1 };
            assert(l.handles.dom().contains(o));
            assert(handle_ok(l, o));
        } else {
            assert(l.handles.dom().contains(h1) && l.handles.dom().contains(h2));
        }
    }
}

pub proof fn lemma_share(l: Ledger, h: int, nh: int, lo: nat, n: nat, l2: Ledger)
    requires inv(l), step_share(l, h, nh, lo, n, l2)
    ensures inv(l2)
{
    let hd = l.handles[h];
    let a0 = hd.alloc;
    let al = l.allocs[a0];
    assert(handle_ok(l, h));
    assert(alloc_ok(l, a0));
    assert(!al.holders.contains(nh));
    assert forall |x: int| #[trigger] l2.handles.dom().contains(x) implies handle_ok(l2, x) by {
        if x != nh {
            assert(l.handles.dom().contains(x));
            assert(handle_ok(l, x));
        } else {
            assert(read(l2, nh) =~= l.value[h].subrange(lo as int, (lo + n) as int));
        }
    }
    assert forall |b: int| #[trigger] l2.allocs.dom().contains(b) implies alloc_ok(l2, b) by {
        assert(l.allocs.dom().contains(b));
        assert(alloc_ok(l, b));
        if b == a0 {
            lemma_nonempty(al.holders.insert(nh), nh);
        } else {
            assert forall |x: int| l2.allocs[b].holders.contains(x) implies l2.handles.dom().contains(x) && l2.handles[x].alloc == b by {
                assert(l.handles.dom().contains(x));
            }
        }
    }
    assert forall |h1: int, h2: int| #![trigger l2.handles[h1], l2.handles[h2]]
        l2.handles.dom().contains(h1) && l2.handles.dom().contains(h2) && h1 != h2
        && l2.handles[h1].alloc == l2.handles[h2].alloc && l2.handles[h1].mutable
        implies disjoint(l2.handles[h1], l2.handles[h2]) by {
        if h2 == nh {
            // the new view lies inside h's view, and h1 (mutable) is disjoint from h
            assert(l.handles.dom().contains(h1));
            assert(h1 != h);
            assert(disjoint(l.handles[h1], l.handles[h]));
        } else {
            assert(h1 != nh);
            assert(l.handles.dom().contains(h1) && l.handles.dom().contains(h2));
        }
    }
}

pub proof fn lemma_narrow(l: Ledger, h: int, lo: nat, n: nat, ncap: nat, l2: Ledger)
    requires inv(l), step_narrow(l, h, lo, n, ncap, l2)
    ensures inv(l2)
{
    let hd = l.handles[h];
    let a0 = hd.alloc;
    assert(handle_ok(l, h));
    assert(alloc_ok(l, a0));
    assert forall |x: int| #[trigger] l2.handles.dom().contains(x) implies handle_ok(l2, x) by {
        assert(l.handles.dom().contains(x));
        assert(handle_ok(l, x));
        if x == h {
            assert(read(l2, h) =~= l.value[h].subrange(lo as int, (lo + n) as int));
        }
    }
    assert forall |b: int| #[trigger] l2.allocs.dom().contains(b) implies alloc_ok(l2, b) by {
        assert(l.allocs.dom().contains(b));
        assert(alloc_ok(l, b));
        assert forall |x: int| l2.allocs[b].holders.contains(x) implies l2.handles.dom().contains(x) && l2.handles[x].alloc == b by {
            assert(l.handles.dom().contains(x));
        }
    }
    assert forall |h1: int, h2: int| #![trigger l2.handles[h1], l2.handles[h2]]
        l2.handles.dom().contains(h1) && l2.handles.dom().contains(h2) && h1 != h2
        && l2.handles[h1].alloc == l2.handles[h2].alloc && l2.handles[h1].mutable
        implies disjoint(l2.handles[h1], l2.handles[h2]) by {
        assert(l.handles.dom().contains(h1) && l.handles.dom().contains(h2));
        assert(disjoint(l.handles[h1], l.handles[h2]));
    }
}

pub proof fn lemma_split(l: Ledger, h: int, nh: int, at: nat, l2: Ledger)
    requires inv(l), step_split(l, h, nh, at, l2)
    ensures inv(l2),
        // the two halves are disjoint and together cover exactly the old region
        disjoint(l2.handles[h], l2.handles[nh]),
        l2.handles[h].off == l.handles[h].off && l2.handles[nh].off == l.handles[h].off + at,
        l2.handles[h].cap + l2.handles[nh].cap == l.handles[h].cap,
{
    let hd = l.handles[h];
    let a0 = hd.alloc;
    let al = l.allocs[a0];
    let l1 = min(hd.len, at);
    assert(handle_ok(l, h));
    assert(alloc_ok(l, a0));
    assert(!al.holders.contains(nh));
    assert forall |x: int| #[trigger] l2.handles.dom().contains(x) implies handle_ok(l2, x) by {
        if x == h {
            assert(read(l2, h) =~= l.value[h].subrange(0, l1 as int));
        } else if x == nh {
            assert(read(l2, nh) =~= l.value[h].subrange(l1 as int, hd.len as int));
        } else {
            assert(l.handles.dom().contains(x));
            assert(handle_ok(l, x));
        }
    }
    assert forall |b: int| #[trigger] l2.allocs.dom().contains(b) implies alloc_ok(l2, b) by {
        assert(l.allocs.dom().contains(b));
        assert(alloc_ok(l, b));
        if b == a0 {
            lemma_nonempty(al.holders.insert(nh), nh);
        } else {
            assert forall |x: int| l2.allocs[b].holders.contains(x) implies l2.handles.dom().contains(x) && l2.handles[x].alloc == b by {
                assert(l.handles.dom().contains(x));
            }
        }
    }
    assert forall |h1: int, h2: int| #![trigger l2.handles[h1], l2.handles[h2]]
        l2.handles.dom().contains(h1) && l2.handles.dom().contains(h2) && h1 != h2
        && l2.handles[h1].alloc == l2.handles[h2].alloc && l2.handles[h1].mutable
        implies disjoint(l2.handles[h1], l2.handles[h2]) by {
        let in1 = h1 == h || h1 == nh;
        let in2 = h2 == h || h2 == nh;
        if in1 && in2 {
        } else if in1 {
            assert(l.handles.dom().contains(h2));
            assert(disjoint(l.handles[h], l.handles[h2]));
        } else if in2 {
            assert(l.handles.dom().contains(h1));
            assert(disjoint(l.handles[h1], l.handles[h]));
        } else {
            assert(l.handles.dom().contains(h1) && l.handles.dom().contains(h2));
        }
    }
}

pub proof fn lemma_write(l: Ledger, h: int, i: nat, b: u8, l2: Ledger)
    requires inv(l), step_write(l, h, i, b, l2)
    ensures inv(l2)
{
    let hd = l.handles[h];
    let a0 = hd.alloc;
    let al = l.allocs[a0];
    assert(handle_ok(l, h));
    assert(alloc_ok(l, a0));
    assert forall |x: int| #[trigger] l2.handles.dom().contains(x) implies handle_ok(l2, x) by {
        assert(l.handles.dom().contains(x));
        assert(handle_ok(l, x));
        if x == h {
            if i < hd.len {
                assert(read(l2, h) =~= l.value[h].update(i as int, b));
            } else {
                assert(read(l2, h) =~= read(l, h));
            }
        } else if l.handles[x].alloc == a0 {
            // the written byte is inside h's region, which is disjoint from x's (L-excl)
            assert(disjoint(l.handles[h], l.handles[x]));
            assert(read(l2, x) =~= read(l, x));
        }
    }
    assert forall |c: int| #[trigger] l2.allocs.dom().contains(c) implies alloc_ok(l2, c) by {
        assert(l.allocs.dom().contains(c));
        assert(alloc_ok(l, c));
        assert forall |x: int| l2.allocs[c].holders.contains(x) implies l2.handles.dom().contains(x) && l2.handles[x].alloc == c by {
            assert(l.handles.dom().contains(x));
        }
    }
    assert forall |h1: int, h2: int| #![trigger l2.handles[h1], l2.handles[h2]]
        l2.handles.dom().contains(h1) && l2.handles.dom().contains(h2) && h1 != h2
        && l2.handles[h1].alloc == l2.handles[h2].alloc && l2.handles[h1].mutable
        implies disjoint(l2.handles[h1], l2.handles[h2]) by {
        assert(disjoint(l.handles[h1], l.handles[h2]));
    }
}

pub proof fn lemma_set_len(l: Ledger, h: int, n: nat, l2: Ledger)
    requires inv(l), step_set_len(l, h, n, l2)
    ensures inv(l2)
{
    let hd = l.handles[h];
    let a0 = hd.alloc;
    assert(handle_ok(l, h));
    assert(alloc_ok(l, a0));
    assert forall |x: int| #[trigger] l2.handles.dom().contains(x) implies handle_ok(l2, x) by {
        assert(l.handles.dom().contains(x));
        assert(handle_ok(l, x));
    }
    assert forall |c: int| #[trigger] l2.allocs.dom().contains(c) implies alloc_ok(l2, c) by {
        assert(l.allocs.dom().contains(c));
        assert(alloc_ok(l, c));
        assert forall |x: int| l2.allocs[c].holders.contains(x) implies l2.handles.dom().contains(x) && l2.handles[x].alloc == c by {
            assert(l.handles.dom().contains(x));
        }
    }
    assert forall |h1: int, h2: int| #![trigger l2.handles[h1], l2.handles[h2]]
        l2.handles.dom().contains(h1) && l2.handles.dom().contains(h2) && h1 != h2
        && l2.handles[h1].alloc == l2.handles[h2].alloc && l2.handles[h1].mutable
        implies disjoint(l2.handles[h1], l2.handles[h2]) by {
        assert(l.handles.dom().contains(h1) && l.handles.dom().contains(h2));
        assert(disjoint(l.handles[h1], l.handles[h2]));
    }
}

pub proof fn lemma_freeze(l: Ledger, h: int, l2: Ledger)
    requires inv(l), step_freeze(l, h, l2)
    ensures inv(l2)
{
    let hd = l.handles[h];
    assert(handle_ok(l, h));
    assert forall |x: int| #[trigger] l2.handles.dom().contains(x) implies handle_ok(l2, x) by {
        assert(l.handles.dom().contains(x));
        assert(handle_ok(l, x));
        if x == h { assert(read(l2, h) =~= read(l, h)); }
    }
    assert forall |c: int| #[trigger] l2.allocs.dom().contains(c) implies alloc_ok(l2, c) by {
        assert(alloc_ok(l, c));
        assert forall |x: int| l2.allocs[c].holders.contains(x) implies l2.handles.dom().contains(x) && l2.handles[x].alloc == c by {
            assert(l.handles.dom().contains(x));
        }
    }
    assert forall |h1: int, h2: int| #![trigger l2.handles[h1], l2.handles[h2]]
        l2.handles.dom().contains(h1) && l2.handles.dom().contains(h2) && h1 != h2
        && l2.handles[h1].alloc == l2.handles[h2].alloc && l2.handles[h1].mutable
        implies disjoint(l2.handles[h1], l2.handles[h2]) by {
        assert(l.handles.dom().contains(h1) && l.handles.dom().contains(h2));
        assert(disjoint(l.handles[h1], l.handles[h2]));
    }
}

pub proof fn lemma_thaw(l: Ledger, h: int, ncap: nat, l2: Ledger)
    requires inv(l), step_thaw(l, h, ncap, l2)
    ensures inv(l2)
{
    let hd = l.handles[h];
    let a0 = hd.alloc;
    assert(handle_ok(l, h));
    lemma_unique(l, h);
    assert forall |x: int| #[trigger] l2.handles.dom().contains(x) implies handle_ok(l2, x) by {
        assert(l.handles.dom().contains(x));
        assert(handle_ok(l, x));
        if x == h { assert(read(l2, h) =~= read(l, h)); }
    }
    assert forall |c: int| #[trigger] l2.allocs.dom().contains(c) implies alloc_ok(l2, c) by {
        assert(alloc_ok(l, c));
        assert forall |x: int| l2.allocs[c].holders.contains(x) implies l2.handles.dom().contains(x) && l2.handles[x].alloc == c by {
            assert(l.handles.dom().contains(x));
        }
    }
    assert forall |h1: int, h2: int| #![trigger l2.handles[h1], l2.handles[h2]]
        l2.handles.dom().contains(h1) && l2.handles.dom().contains(h2) && h1 != h2
        && l2.handles[h1].alloc == l2.handles[h2].alloc && l2.handles[h1].mutable
        implies disjoint(l2.handles[h1], l2.handles[h2]) by {
        assert(l.handles.dom().contains(h1) && l.handles.dom().contains(h2));
        if h1 == h || h2 == h {
            // impossible: h is the only handle on its allocation
            let o = if h1 == h { h2 } else { h1 };
            assert(l.handles[o].alloc == a0);
            assert(false);
        } else {
            assert(disjoint(l.handles[h1], l.handles[h2]));
        }
    }
}

pub proof fn lemma_drop(l: Ledger, h: int, l2: Ledger)
    requires inv(l), step_drop(l, h, l2)
    ensures
        inv(l2),
        // freed exactly when the last handle on the allocation goes - never earlier, never twice
        !l2.allocs[l.handles[h].alloc].live <==>
            (forall |x: int| l2.handles.dom().contains(x) ==> l2.handles[x].alloc != l.handles[h].alloc),
        l2.allocs[l.handles[h].alloc].frees == (if refcnt(l, l.handles[h].alloc) == 1 { 1nat } else { 0nat }),
{
    let hd = l.handles[h];
    let a0 = hd.alloc;
    let al = l.allocs[a0];
    assert(handle_ok(l, h));
    assert(alloc_ok(l, a0));
    assert forall |x: int| #[trigger] l2.handles.dom().contains(x) implies handle_ok(l2, x) by {
        assert(l.handles.dom().contains(x));
        assert(handle_ok(l, x));
        if l.handles[x].alloc == a0 {
            lemma_set_two(al.holders, h, x);
            assert(read(l2, x) =~= read(l, x));
        }
    }
    assert forall |c: int| #[trigger] l2.allocs.dom().contains(c) implies alloc_ok(l2, c) by {
        assert(l.allocs.dom().contains(c));
        assert(alloc_ok(l, c));
        if c == a0 {
            if al.holders.len() != 1 {
                lemma_nonempty(al.holders, h);
                assert(al.holders.remove(h).len() >= 1);
            }
        }
        assert forall |x: int| l2.allocs[c].holders.contains(x) implies l2.handles.dom().contains(x) && l2.handles[x].alloc == c by {
            assert(l.handles.dom().contains(x));
        }
    }
    assert forall |h1: int, h2: int| #![trigger l2.handles[h1], l2.handles[h2]]
        l2.handles.dom().contains(h1) && l2.handles.dom().contains(h2) && h1 != h2
        && l2.handles[h1].alloc == l2.handles[h2].alloc && l2.handles[h1].mutable
        implies disjoint(l2.handles[h1], l2.handles[h2]) by {
        assert(l.handles.dom().contains(h1) && l.handles.dom().contains(h2));
        assert(disjoint(l.handles[h1], l.handles[h2]));
    }
    if !l2.allocs[a0].live {
        assert forall |x: int| l2.handles.dom().contains(x) implies l2.handles[x].alloc != a0 by {
            if l2.handles[x].alloc == a0 {
                assert(l.handles.dom().contains(x));
                assert(handle_ok(l, x));
                lemma_set_two(al.holders, h, x);
            }
        }
    } else {
        lemma_nonempty(al.holders, h);
        let w = al.holders.remove(h).choose();
        assert(al.holders.remove(h).len() >= 1);
        assert(al.holders.remove(h).contains(w));
        assert(l2.handles.dom().contains(w) && l2.handles[w].alloc == a0);
    }
}

pub proof fn lemma_reclaim(l: Ledger, h: int, noff: nat, ncap: nat, bytes2: Seq<u8>, l2: Ledger)
    requires inv(l), step_reclaim(l, h, noff, ncap, bytes2, l2)
    ensures inv(l2)
{
    let hd = l.handles[h];
    let a0 = hd.alloc;
    assert(handle_ok(l, h));
    assert(alloc_ok(l, a0));
    lemma_unique(l, h);
    assert forall |x: int| #[trigger] l2.handles.dom().contains(x) implies handle_ok(l2, x) by {
        assert(l.handles.dom().contains(x));
        assert(handle_ok(l, x));
        if x == h {
            assert(read(l2, h) =~= l.value[h]);
        } else {
            assert(l.handles[x].alloc != a0);
        }
    }
    assert forall |c: int| #[trigger] l2.allocs.dom().contains(c) implies alloc_ok(l2, c) by {
        assert(l.allocs.dom().contains(c));
        assert(alloc_ok(l, c));
        assert forall |x: int| l2.allocs[c].holders.contains(x) implies l2.handles.dom().contains(x) && l2.handles[x].alloc == c by {
            assert(l.handles.dom().contains(x));
        }
    }
    assert forall |h1: int, h2: int| #![trigger l2.handles[h1], l2.handles[h2]]
        l2.handles.dom().contains(h1) && l2.handles.dom().contains(h2) && h1 != h2
        && l2.handles[h1].alloc == l2.handles[h2].alloc && l2.handles[h1].mutable
        implies disjoint(l2.handles[h1], l2.handles[h2]) by {
        assert(l.handles.dom().contains(h1) && l.handles.dom().contains(h2));
        if h1 == h || h2 == h {
            let o = if h1 == h { h2 } else { h1 };
            assert(l.handles[o].alloc == a0);
            assert(false);
        } else {
            assert(disjoint(l.handles[h1], l.handles[h2]));
        }
    }
}

pub proof fn lemma_unsplit(l: Ledger, h: int, h2: int, l2: Ledger)
    requires inv(l), step_unsplit(l, h, h2, l2)
    ensures inv(l2),
        // adjacency of the data + exclusivity force the first half to have no spare capacity
        l.handles[h].cap == l.handles[h].len,
{
    let hd = l.handles[h];
    let od = l.handles[h2];
    let a0 = hd.alloc;
    let al = l.allocs[a0];
    assert(handle_ok(l, h));
    assert(handle_ok(l, h2));
    assert(alloc_ok(l, a0));
    assert(disjoint(l.handles[h], l.handles[h2]));
    assert(hd.cap == hd.len);
    assert forall |x: int| #[trigger] l2.handles.dom().contains(x) implies handle_ok(l2, x) by {
        assert(l.handles.dom().contains(x));
        assert(handle_ok(l, x));
        if x == h {
            assert(read(l2, h) =~= l.value[h] + l.value[h2]);
        } else if l.handles[x].alloc == a0 {
            lemma_set_two(al.holders, h2, x);
        }
    }
    assert forall |c: int| #[trigger] l2.allocs.dom().contains(c) implies alloc_ok(l2, c) by {
        assert(l.allocs.dom().contains(c));
        assert(alloc_ok(l, c));
        if c == a0 {
            lemma_set_two(al.holders, h, h2);
            assert(al.holders.remove(h2).contains(h));
            lemma_nonempty(al.holders.remove(h2), h);
        }
        assert forall |x: int| l2.allocs[c].holders.contains(x) implies l2.handles.dom().contains(x) && l2.handles[x].alloc == c by {
            assert(l.handles.dom().contains(x));
        }
    }
    assert forall |k1: int, k2: int| #![trigger l2.handles[k1], l2.handles[k2]]
        l2.handles.dom().contains(k1) && l2.handles.dom().contains(k2) && k1 != k2
        && l2.handles[k1].alloc == l2.handles[k2].alloc && l2.handles[k1].mutable
        implies disjoint(l2.handles[k1], l2.handles[k2]) by {
        assert(l.handles.dom().contains(k1) && l.handles.dom().contains(k2));
        if k1 == h {
            assert(disjoint(l.handles[h], l.handles[k2]));
            assert(disjoint(l.handles[h2], l.handles[k2]));
        } else if k2 == h {
            assert(disjoint(l.handles[k1], l.handles[h]));
            assert(disjoint(l.handles[k1], l.handles[h2]));
        } else {
            assert(disjoint(l.handles[k1], l.handles[k2]));
        }
    }
}

// ------------------------------------------------------------------------------------------------
// all histories
// ------------------------------------------------------------------------------------------------

pub proof fn lemma_step(l: Ledger, op: Op, l2: Ledger)
    requires inv(l), step(l, op, l2)
    ensures inv(l2)
{
    match op {
        Op::Alloc { h, a, bytes, len, mutable } => lemma_alloc(l, h, a, bytes, len, mutable, l2),
        Op::Share { h, nh, lo, n } => lemma_share(l, h, nh, lo, n, l2),
        Op::Narrow { h, lo, n, ncap } => lemma_narrow(l, h, lo, n, ncap, l2),
        Op::Split { h, nh, at } => lemma_split(l, h, nh, at, l2),
        Op::Write { h, i, b } => lemma_write(l, h, i, b, l2),
        Op::SetLen { h, n } => lemma_set_len(l, h, n, l2),
        Op::Freeze { h } => lemma_freeze(l, h, l2),
        Op::Thaw { h, ncap } => lemma_thaw(l, h, ncap, l2),
        Op::Drop { h } => lemma_drop(l, h, l2),
        Op::Reclaim { h, noff, ncap, bytes2 } => lemma_reclaim(l, h, noff, ncap, bytes2, l2),
        Op::Unsplit { h, h2 } => lemma_unsplit(l, h, h2, l2),
    }
}

/// L-value, frame half: an operation changes the value of its target handles only, and (by the
/// invariant of the post-state) every other live handle still READS that unchanged value
pub proof fn lemma_frame(l: Ledger, op: Op, l2: Ledger, x: int)
    requires inv(l), step(l, op, l2), l.handles.dom().contains(x), !targets(op).contains(x)
    ensures
        l2.handles.dom().contains(x),
        l2.value[x] == l.value[x],
        read(l2, x) == read(l, x),
        l2.handles[x] == l.handles[x],
{
    lemma_step(l, op, l2);
    assert(handle_ok(l, x));
    match op {
        Op::Alloc { h, a, bytes, len, mutable } => { assert(set![h].contains(h)); }
        Op::Share { h, nh, lo, n } => { assert(set![nh].contains(nh)); }
        Op::Narrow { h, lo, n, ncap } => { assert(set![h].contains(h)); }
        Op::Split { h, nh, at } => { assert(set![h, nh].contains(h) && set![h, nh].contains(nh)); }
        Op::Write { h, i, b } => { assert(set![h].contains(h)); }
        Op::SetLen { h, n } => { assert(set![h].contains(h)); }
        Op::Freeze { h } => { assert(set![h].contains(h)); }
        Op::Thaw { h, ncap } => { assert(set![h].contains(h)); }
        Op::Drop { h } => { assert(set![h].contains(h)); }
        Op::Reclaim { h, noff, ncap, bytes2 } => { assert(set![h].contains(h)); }
        Op::Unsplit { h, h2 } => { assert(set![h, h2].contains(h) && set![h, h2].contains(h2)); }
    }
    assert(l2.handles.dom().contains(x));
    assert(handle_ok(l2, x));
}

pub open spec fn run(states: Seq<Ledger>, ops: Seq<Op>) -> bool {
    &&& states.len() == ops.len() + 1
    &&& forall |i: int| 0 <= i < ops.len() ==> #[trigger] step(states[i], ops[i], states[i + 1])
}

pub open spec fn empty_ledger() -> Ledger {
    Ledger { allocs: Map::empty(), handles: Map::empty(), value: Map::empty() }
}

/// every state of every finite history that starts from nothing satisfies the invariant
pub proof fn theorem_all_histories(states: Seq<Ledger>, ops: Seq<Op>, k: int)
    requires run(states, ops), states[0] == empty_ledger(), 0 <= k <= ops.len()
    ensures inv(states[k])
    decreases k
{
    if k > 0 {
        theorem_all_histories(states, ops, k - 1);
        assert(step(states[k - 1], ops[k - 1], states[k - 1 + 1]));
        lemma_step(states[k - 1], ops[k - 1], states[k]);
    }
}

/// no leak: when a history ends with no live handle, every allocation ever made has been
/// released, exactly once
pub proof fn theorem_no_leak(states: Seq<Ledger>, ops: Seq<Op>)
    requires run(states, ops), states[0] == empty_ledger(), states[ops.len() as int].handles.dom() =~= Set::empty()
    ensures forall |a: int| states[ops.len() as int].allocs.dom().contains(a) ==>
        !(#[trigger] states[ops.len() as int].allocs[a]).live && states[ops.len() as int].allocs[a].frees == 1
{
    let lf = states[ops.len() as int];
    theorem_all_histories(states, ops, ops.len() as int);
    assert forall |a: int| lf.allocs.dom().contains(a) implies !(#[trigger] lf.allocs[a]).live && lf.allocs[a].frees == 1 by {
        assert(alloc_ok(lf, a));
        if lf.allocs[a].live {
            let w = lf.allocs[a].holders.choose();
            assert(lf.allocs[a].holders.len() > 0);
            assert(lf.allocs[a].holders.contains(w));
            assert(lf.handles.dom().contains(w));
        }
    }
}

} // verus!
fn main() {}
