use super::*;
use core::fmt::Write;

struct Sink { buf: [u8; 12], n: usize }
impl Write for Sink {
    fn write_str(&mut self, s: &str) -> Result {
        let b = s.as_bytes();
        let mut i = 0;
        while i < b.len() {
            if self.n >= 12 { return Err(core::fmt::Error); }
            self.buf[self.n] = b[i];
            self.n += 1;
            i += 1;
        }
        Ok(())
    }
}

fn hexval(c: u8) -> Option<u8> {
    if c >= b'0' && c <= b'9' { Some(c - b'0') } else if c >= b'a' && c <= b'f' { Some(c - b'a' + 10) } else if c >= b'A' && c <= b'F' { Some(c - b'A' + 10) } else { None }
}

// independent decoder of one element of a Rust byte-string literal body; returns (byte, consumed)
fn decode_one(s: &[u8]) -> Option<(u8, usize)> {
    if s.is_empty() { return None; }
    let c = s[0];
    if c == b'\\' {
        if s.len() < 2 { return None; }
        match s[1] {
            b'n' => Some((b'\n', 2)), b'r' => Some((b'\r', 2)), b't' => Some((b'\t', 2)),
            b'\\' => Some((b'\\', 2)), b'0' => Some((0, 2)), b'"' => Some((b'"', 2)), b'\'' => Some((b'\'', 2)),
            b'x' => { if s.len() < 4 { return None; } match (hexval(s[2]), hexval(s[3])) { (Some(h), Some(l)) => Some((h * 16 + l, 4)), _ => None } }
            _ => None,
        }
    } else if c == b'"' || c == b'\r' || c >= 0x80 { None } else { Some((c, 1)) }
}

#[kani::proof]
#[kani::unwind(13)]
fn kx_dbg_two_bytes() {
    let arr: [u8; 2] = kani::any();
    let mut s = Sink { buf: [0; 12], n: 0 };
    let r = core::fmt::write(&mut s, format_args!("{:?}", BytesRef(&arr)));
    assert!(r.is_ok());
    assert!(s.n >= 5 && s.buf[0] == b'b' && s.buf[1] == b'"' && s.buf[s.n - 1] == b'"');
    let body = &s.buf[2..s.n - 1];
    let d0 = decode_one(body);
    assert!(d0.is_some());
    let (b0, c0) = d0.unwrap();
    assert!(b0 == arr[0]);
    let d1 = decode_one(&body[c0..]);
    assert!(d1.is_some());
    let (b1, c1) = d1.unwrap();
    assert!(b1 == arr[1]);
    assert!(c0 + c1 == body.len());
}
