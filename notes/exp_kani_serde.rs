use super::*;
use serde::de::Visitor;

#[kani::proof]
fn kx_visit_bytes() {
    let arr: [u8; 8] = kani::any();
    let n: usize = 8;
    let r: Result<Bytes, serde::de::value::Error> = BytesVisitor.visit_bytes(&arr[..n]);
    let b = r.unwrap();
    assert!(b.len() == n);
    let i: usize = kani::any();
    kani::assume(i < n);
    assert!(b[i] == arr[i]);
}
