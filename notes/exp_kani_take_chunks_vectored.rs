use super::*;
use crate::buf::Chain;

#[kani::proof]
#[kani::unwind(17)]
fn kx_take_chunks_vectored() {
    let a: [u8; 4] = kani::any();
    let b: [u8; 4] = kani::any();
    let na: usize = kani::any();
    let nb: usize = kani::any();
    kani::assume(na <= 4 && nb <= 4);
    let limit: usize = kani::any();
    let t = (&a[..na]).chain(&b[..nb]).take(limit);
    let e: &[u8] = &[0xEE];
    let mut dst = [IoSlice::new(e), IoSlice::new(e), IoSlice::new(e)];
    let nd: usize = kani::any();
    kani::assume(nd <= 3);
    let r = t.chunks_vectored(&mut dst[..nd]);
    assert!(r <= nd);
    let rem = t.remaining();
    // total length of reported slices never exceeds remaining
    let mut total = 0;
    let mut i = 0;
    while i < r { total += dst[i].len(); i += 1; }
    assert!(total <= rem);
    if rem > 0 && nd > 0 { assert!(total > 0); }
    // untouched beyond r
    let mut j = r;
    while j < 3 { assert!(dst[j].len() == 1 && dst[j][0] == 0xEE); j += 1; }
}
