use vstd::prelude::*;
verus! {

// abstract state of a recycling m-arc handle that is unique at reserve time
pub struct R { pub vc: nat, pub o: nat, pub l: nat, pub allocs: nat }

pub open spec fn max(a: nat, b: nat) -> nat { if a >= b { a } else { b } }

// contract of reserve_inner(n, true) on a unique shared buffer (Appendix B rows), incl. assumed Vec growth bound
pub open spec fn reserve_step(s: R, n: nat, t: R) -> bool {
    let nc = s.l + n;
    &&& s.o + s.l <= s.vc
    &&& t.l == s.l
    &&& if s.vc >= nc + s.o {
            t.vc == s.vc && t.o == s.o && t.allocs == s.allocs
        } else if s.vc >= nc && s.o >= s.l {
            t.vc == s.vc && t.o == 0 && t.allocs == s.allocs
        } else {
            let want = max(2 * s.vc, nc + s.o);
            &&& t.o == s.o
            &&& t.allocs == s.allocs + 1
            &&& want <= t.vc <= max(max(2 * s.vc, want), 8)
        }
}

// fill then consume (split_to / advance by `at`, part dropped before next refill)
pub open spec fn consume_step(s: R, n: nat, at: nat, t: R) -> bool {
    &&& at <= s.l + n
    &&& t.vc == s.vc && t.allocs == s.allocs
    &&& t.o == s.o + at
    &&& t.l == s.l + n - at
}

pub open spec fn good(s: R, m: nat, c0: nat) -> bool {
    &&& s.o + s.l <= s.vc
    &&& s.l <= m
    &&& s.vc <= max(max(c0, 4 * m), 8)
}

pub proof fn lemma_round(s: R, n: nat, at: nat, t: R, u: R, m: nat, c0: nat)
    requires
        good(s, m, c0), s.l + n <= m,
        reserve_step(s, n, t), consume_step(t, n, at, u),
        t.vc - t.o >= t.l + n,   // reserve's promise (postcondition), needed for the fill
    ensures
        good(u, m, c0),
        // once the buffer is at least 2m no reserve allocates
        s.vc >= 2 * m ==> u.allocs == s.allocs,
        // an allocating reserve at least doubles
        u.allocs > s.allocs ==> u.vc >= 2 * s.vc,
{
}

}
fn main() {}
