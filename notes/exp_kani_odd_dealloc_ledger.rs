use super::*;

static mut EXP_PTR: usize = 0;
static mut EXP_SIZE: usize = 0;
static mut FREED: usize = 0;

unsafe fn ledger_dealloc(ptr: *mut u8, layout: Layout) {
    assert!(ptr as usize == EXP_PTR, "dealloc: wrong pointer");
    assert!(layout.size() == EXP_SIZE && layout.align() == 1, "dealloc: wrong layout");
    FREED += 1;
}

// odd-address promotable buffer: base+1 inside a (cap+1)-byte block; dealloc is the ledger stub
#[kani::proof]
#[kani::stub(alloc::alloc::dealloc, ledger_dealloc)]
fn exp_odd_drop() {
    let cap: usize = kani::any();
    kani::assume(cap >= 1 && cap <= (1usize << 40));
    let mut blk: Vec<u8> = Vec::with_capacity(cap + 1);
    let base = blk.as_mut_ptr();
    let buf = unsafe { base.add(1) };
    assert!(buf as usize & 1 == 1);
    let off: usize = kani::any();
    kani::assume(off <= cap);
    let b = Bytes { ptr: unsafe { buf.add(off) }, len: cap - off, data: AtomicPtr::new(buf.cast()), vtable: &PROMOTABLE_ODD_VTABLE };
    unsafe { EXP_PTR = buf as usize; EXP_SIZE = cap; FREED = 0; }
    drop(b);
    assert!(unsafe { FREED } == 1);
}
