use vstd::prelude::*;
use vstd::std_specs::cmp::*;
use core::cmp;
verus! {

#[verifier::external_body]
pub struct Bytes { p: *const u8 }
#[verifier::external_body]
pub struct BytesMut { p: *const u8 }

impl View for Bytes { type V = Seq<u8>; uninterp spec fn view(&self) -> Seq<u8>; }
impl View for BytesMut { type V = Seq<u8>; uninterp spec fn view(&self) -> Seq<u8>; }

impl Bytes {
    #[verifier::external_body]
    fn as_slice(&self) -> (r: &[u8]) ensures r@ == self@ { unimplemented!() }
}

pub uninterp spec fn lex_cmp(a: Seq<u8>, b: Seq<u8>) -> cmp::Ordering;

// trusted std contracts for slices of u8
pub axiom fn ax_slice_u8()
    ensures
        <[u8] as PartialOrdSpec<[u8]>>::obeys_partial_cmp_spec(),
        <[u8] as PartialEqSpec<[u8]>>::obeys_eq_spec(),
        forall |a: &[u8], b: &[u8]| #[trigger] PartialOrdSpec::partial_cmp_spec(a, b) == Some(lex_cmp(a@, b@)),
        forall |a: &[u8], b: &[u8]| #[trigger] PartialEqSpec::eq_spec(a, b) == (a@ == b@);

impl PartialEqSpecImpl<[u8]> for Bytes {
    open spec fn obeys_eq_spec() -> bool { true }
    open spec fn eq_spec(&self, other: &[u8]) -> bool { self@ == other@ }
}
impl PartialEq<[u8]> for Bytes {
    fn eq(&self, other: &[u8]) -> (r: bool)
    {
        proof { ax_slice_u8(); }
        self.as_slice() == other
    }
}
impl PartialEqSpecImpl<Bytes> for [u8] {
    open spec fn obeys_eq_spec() -> bool { true }
    open spec fn eq_spec(&self, other: &Bytes) -> bool { self@ == other@ }
}
impl PartialEq<Bytes> for [u8] {
    fn eq(&self, other: &Bytes) -> (r: bool)
    {
        *other == *self
    }
}

impl PartialOrdSpecImpl<[u8]> for Bytes {
    open spec fn obeys_partial_cmp_spec() -> bool { true }
    open spec fn partial_cmp_spec(&self, other: &[u8]) -> Option<cmp::Ordering> { Some(lex_cmp(self@, other@)) }
}
impl PartialOrd<[u8]> for Bytes {
    fn partial_cmp(&self, other: &[u8]) -> (r: Option<cmp::Ordering>)
    {
        proof { ax_slice_u8(); }
        self.as_slice().partial_cmp(other)
    }
}


impl BytesMut {
    #[verifier::external_body]
    fn as_slice(&self) -> (r: &[u8]) ensures r@ == self@ { unimplemented!() }
}

impl core::ops::Deref for Bytes {
    type Target = [u8];
    fn deref(&self) -> (r: &[u8])
        ensures r@ == self@
    {
        self.as_slice()
    }
}
impl AsRef<[u8]> for BytesMut {
    fn as_ref(&self) -> (r: &[u8])
        ensures r@ == self@
    {
        self.as_slice()
    }
}
impl core::ops::Deref for BytesMut {
    type Target = [u8];
    fn deref(&self) -> (r: &[u8])
        ensures r@ == self@
    {
        self.as_ref()
    }
}

// bytes.rs:823
impl PartialOrdSpecImpl<Bytes> for [u8] {
    open spec fn obeys_partial_cmp_spec() -> bool { true }
    open spec fn partial_cmp_spec(&self, other: &Bytes) -> Option<cmp::Ordering> { Some(lex_cmp(self@, other@)) }
}
impl PartialOrd<Bytes> for [u8] {
    fn partial_cmp(&self, other: &Bytes) -> (r: Option<cmp::Ordering>)
    {
        proof { ax_slice_u8(); }
        <[u8] as PartialOrd<[u8]>>::partial_cmp(self, other)
    }
}

// bytes.rs:853
impl PartialEqSpecImpl<Vec<u8>> for Bytes {
    open spec fn obeys_eq_spec() -> bool { true }
    open spec fn eq_spec(&self, other: &Vec<u8>) -> bool { self@ == other@ }
}
impl PartialEq<Vec<u8>> for Bytes {
    fn eq(&self, other: &Vec<u8>) -> (r: bool)
    {
        proof { ax_slice_u8(); assert(other@.subrange(0, other@.len() as int) =~= other@); assert(self@.subrange(0, self@.len() as int) =~= self@); }
        *self == other[..]
    }
}

// bytes_mut.rs:1561
impl PartialEqSpecImpl<[u8]> for BytesMut {
    open spec fn obeys_eq_spec() -> bool { true }
    open spec fn eq_spec(&self, other: &[u8]) -> bool { self@ == other@ }
}
impl PartialEq<[u8]> for BytesMut {
    fn eq(&self, other: &[u8]) -> (r: bool)
    {
        proof { ax_slice_u8(); }
        &**self == other
    }
}

// bytes_mut.rs:1699
impl PartialEqSpecImpl<BytesMut> for Bytes {
    open spec fn obeys_eq_spec() -> bool { true }
    open spec fn eq_spec(&self, other: &BytesMut) -> bool { self@ == other@ }
}
impl PartialEq<BytesMut> for Bytes {
    fn eq(&self, other: &BytesMut) -> (r: bool)
    {
        proof { ax_slice_u8(); assert(other@.subrange(0, other@.len() as int) =~= other@); assert(self@.subrange(0, self@.len() as int) =~= self@); }
        other[..] == self[..]
    }
}

impl PartialEqSpecImpl<Vec<u8>> for BytesMut {
    open spec fn obeys_eq_spec() -> bool { true }
    open spec fn eq_spec(&self, other: &Vec<u8>) -> bool { self@ == other@ }
}
impl PartialEq<Vec<u8>> for BytesMut {
    fn eq(&self, other: &Vec<u8>) -> (r: bool)
    {
        proof { ax_slice_u8(); assert(other@.subrange(0, other@.len() as int) =~= other@); assert(self@.subrange(0, self@.len() as int) =~= self@); }
        *self == other[..]
    }
}
impl PartialEqSpecImpl<BytesMut> for Vec<u8> {
    open spec fn obeys_eq_spec() -> bool { true }
    open spec fn eq_spec(&self, other: &BytesMut) -> bool { self@ == other@ }
}
impl PartialEq<BytesMut> for Vec<u8> {
    fn eq(&self, other: &BytesMut) -> (r: bool)
    {
        *other == *self
    }
}
// bytes_mut.rs:1627 (the reversed one)
impl PartialOrdSpecImpl<Vec<u8>> for BytesMut {
    open spec fn obeys_partial_cmp_spec() -> bool { true }
    open spec fn partial_cmp_spec(&self, other: &Vec<u8>) -> Option<cmp::Ordering> { Some(lex_cmp(self@, other@)) }
}
impl PartialOrd<Vec<u8>> for BytesMut {
    fn partial_cmp(&self, other: &Vec<u8>) -> (r: Option<cmp::Ordering>)
    {
        proof { ax_slice_u8(); assert(other@.subrange(0, other@.len() as int) =~= other@); assert(self@.subrange(0, self@.len() as int) =~= self@); }
        (**self).partial_cmp(&other[..])
    }
}
impl PartialOrdSpecImpl<BytesMut> for Vec<u8> {
    open spec fn obeys_partial_cmp_spec() -> bool { true }
    open spec fn partial_cmp_spec(&self, other: &BytesMut) -> Option<cmp::Ordering> { Some(lex_cmp(self@, other@)) }
}
impl PartialOrd<BytesMut> for Vec<u8> {
    fn partial_cmp(&self, other: &BytesMut) -> (r: Option<cmp::Ordering>)
    {
        other.partial_cmp(self)
    }
}
}
fn main() {}
