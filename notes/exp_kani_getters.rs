use super::*;

/// Law-abiding Buf with adversarial chunking: each chunk() call returns a non-empty
/// prefix of the remaining bytes whose length is chosen by the solver (fixed per position).
struct AnyChunks { data: [u8; 20], pos: usize, end: usize, cut: [usize; 20] }

impl Buf for AnyChunks {
    fn remaining(&self) -> usize { self.end - self.pos }
    fn chunk(&self) -> &[u8] {
        if self.pos == self.end { return &[]; }
        let mut k = self.cut[self.pos];
        if k == 0 { k = 1; }
        if k > self.end - self.pos { k = self.end - self.pos; }
        &self.data[self.pos..self.pos + k]
    }
    fn advance(&mut self, cnt: usize) {
        assert!(cnt <= self.end - self.pos);
        self.pos += cnt;
    }
}

fn any_buf() -> AnyChunks {
    let b = AnyChunks { data: kani::any(), pos: kani::any(), end: kani::any(), cut: kani::any() };
    kani::assume(b.pos <= b.end && b.end <= 20);
    b
}

#[kani::proof]
#[kani::unwind(10)]
fn exp_get_u64() {
    let mut b = any_buf();
    let p = b.pos;
    kani::assume(b.end - b.pos >= 8);
    let v = b.get_u64();
    let mut a = [0u8; 8];
    a.copy_from_slice(&b.data[p..p + 8]);
    assert!(v == u64::from_be_bytes(a));
    assert!(b.pos == p + 8);
}

#[kani::proof]
#[kani::unwind(10)]
fn exp_try_get_int() {
    let mut b = any_buf();
    let p = b.pos;
    let n: usize = kani::any();
    kani::assume(n <= 8 && b.end - b.pos >= n);
    let v = b.try_get_int(n);
    // independent oracle: sign-fill then from_be_bytes
    let mut a = [0u8; 8];
    if n > 0 && (b.data[p] & 0x80) != 0 { a = [0xff; 8]; }
    let mut i = 0;
    while i < n { a[8 - n + i] = b.data[p + i]; i += 1; }
    assert!(v == Ok(i64::from_be_bytes(a)));
    assert!(b.pos == p + n);
}
