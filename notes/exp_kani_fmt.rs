use super::*;
use core::fmt::Write;

struct Sink { buf: [u8; 12], n: usize }
impl Write for Sink {
    fn write_str(&mut self, s: &str) -> Result {
        let b = s.as_bytes();
        let mut i = 0;
        while i < b.len() {
            if self.n >= 12 { return Err(core::fmt::Error); }
            self.buf[self.n] = b[i];
            self.n += 1;
            i += 1;
        }
        Ok(())
    }
}

#[kani::proof]
#[kani::unwind(13)]
fn exp_dbg_one_byte() {
    let b: u8 = kani::any();
    let arr = [b];
    let mut s = Sink { buf: [0; 12], n: 0 };
    let r = core::fmt::write(&mut s, format_args!("{:?}", BytesRef(&arr)));
    assert!(r.is_ok());
    assert!(s.n >= 4 && s.buf[0] == b'b' && s.buf[1] == b'"' && s.buf[s.n - 1] == b'"');
    if b == b'a' { assert!(s.n == 4 && s.buf[2] == b'a'); }
    if b == 0xff { assert!(s.n == 7 && s.buf[2] == b'\\' && s.buf[3] == b'x' && s.buf[4] == b'f' && s.buf[5] == b'f'); }
}
