use vstd::prelude::*;
use vstd::std_specs::cmp::*;
verus! {

pub struct TryGetError { pub requested: usize, pub available: usize }

#[verifier::external_body]
fn panic_advance(error_info: &TryGetError) -> !
    requires false
{ panic!() }

pub assume_specification<T: core::cmp::Ord> [core::cmp::min] (a: T, b: T) -> (r: T)
    ensures T::obeys_cmp_spec() ==> r == (if a.cmp_spec(&b) == core::cmp::Ordering::Greater { b } else { a });

pub trait Buf {
    spec fn seq(&self) -> Seq<u8>;

    fn remaining(&self) -> (r: usize)
        ensures r == self.seq().len();

    fn chunk(&self) -> (r: &[u8])
        ensures r@.is_prefix_of(self.seq()), r@.len() == 0 <==> self.seq().len() == 0;

    fn advance(&mut self, cnt: usize)
        requires cnt <= old(self).seq().len()
        ensures final(self).seq() == old(self).seq().skip(cnt as int);

    fn has_remaining(&self) -> (r: bool)
        ensures r == (self.seq().len() > 0)
    {
        self.remaining() > 0
    }
}

pub struct Take<T> { inner: T, limit: usize }

impl<T: Buf> Buf for Take<T> {
    closed spec fn seq(&self) -> Seq<u8> {
        self.inner.seq().take(if self.inner.seq().len() < self.limit { self.inner.seq().len() as int } else { self.limit as int })
    }
    fn remaining(&self) -> (r: usize) {
        core::cmp::min(self.inner.remaining(), self.limit)
    }
    fn chunk(&self) -> (r: &[u8]) {
        let bytes = self.inner.chunk();
        &bytes[..core::cmp::min(bytes.len(), self.limit)]
    }
    fn advance(&mut self, cnt: usize) {
        assert!(cnt <= self.limit);
        self.inner.advance(cnt);
        self.limit -= cnt;
    }
}

impl Buf for &[u8] {
    open spec fn seq(&self) -> Seq<u8> { self@ }
    fn remaining(&self) -> (r: usize) { self.len() }
    fn chunk(&self) -> (r: &[u8]) { self }
    fn advance(&mut self, cnt: usize) {
        if self.len() < cnt {
            panic_advance(&TryGetError { requested: cnt, available: self.len() });
        }
        *self = &self[cnt..];
    }
}

} // verus!
fn main() {}
