use super::*;

/// Law-abiding Buf: chunk() returns a solver-chosen non-empty prefix; copy_to_slice IS its contract.
struct AbsBuf { data: [u8; 40], pos: usize, end: usize, cut: usize }

impl Buf for AbsBuf {
    fn remaining(&self) -> usize { self.end - self.pos }
    fn chunk(&self) -> &[u8] {
        if self.pos == self.end { return &[]; }
        let mut k = self.cut;
        if k == 0 { k = 1; }
        if k > self.end - self.pos { k = self.end - self.pos; }
        &self.data[self.pos..self.pos + k]
    }
    fn advance(&mut self, cnt: usize) {
        assert!(cnt <= self.end - self.pos);
        self.pos += cnt;
    }
    // contract of the default method (proved generically elsewhere), used modularly
    fn try_copy_to_slice(&mut self, dst: &mut [u8]) -> Result<(), TryGetError> {
        if self.remaining() < dst.len() {
            return Err(TryGetError { requested: dst.len(), available: self.remaining() });
        }
        let n = dst.len();
        dst.copy_from_slice(&self.data[self.pos..self.pos + n]);
        self.pos += n;
        Ok(())
    }
}

fn any_buf() -> AbsBuf {
    let b = AbsBuf { data: kani::any(), pos: kani::any(), end: kani::any(), cut: kani::any() };
    kani::assume(b.pos <= b.end && b.end <= 40);
    b
}

#[kani::proof]
fn kx_get_u64() {
    let mut b = any_buf();
    let p = b.pos;
    kani::assume(b.end - b.pos >= 8);
    let v = b.get_u64();
    let mut a = [0u8; 8];
    a.copy_from_slice(&b.data[p..p + 8]);
    assert!(v == u64::from_be_bytes(a));
    assert!(b.pos == p + 8);
}

#[kani::proof]
fn kx_try_get_u128_le() {
    let mut b = any_buf();
    let p = b.pos;
    let avail = b.end - b.pos;
    let r = b.try_get_u128_le();
    if avail >= 16 {
        let mut a = [0u8; 16];
        a.copy_from_slice(&b.data[p..p + 16]);
        assert!(r == Ok(u128::from_le_bytes(a)));
        assert!(b.pos == p + 16);
    } else {
        assert!(r == Err(TryGetError { requested: 16, available: avail }));
        assert!(b.pos == p);
    }
}

#[kani::proof]
#[kani::unwind(9)]
fn kx_get_uint() {
    let mut b = any_buf();
    let p = b.pos;
    let n: usize = kani::any();
    kani::assume(n <= 8 && b.end - b.pos >= n);
    let v = b.get_uint(n);
    let mut a = [0u8; 8];
    let mut i = 0;
    while i < n { a[8 - n + i] = b.data[p + i]; i += 1; }
    assert!(v == u64::from_be_bytes(a));
    assert!(b.pos == p + n);
}
