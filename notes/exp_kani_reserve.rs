use super::*;

// G1: reserve on KIND_VEC handle with symbolic off/len/cap; checks promise + content preservation at a nondet index
// std contract stub: Vec::reserve
fn stub_vec_reserve(v: &mut Vec<u8>, additional: usize) {
    let len = v.len();
    let cap = v.capacity();
    if cap - len >= additional { return; }
    let need = len.checked_add(additional);
    if need.is_none() || need.unwrap() > isize::MAX as usize { panic!("capacity overflow"); }
    let need = need.unwrap();
    let newcap: usize = kani::any();
    kani::assume(newcap >= need && newcap <= (1usize << 41));
    let mut nv: Vec<u8> = Vec::with_capacity(newcap);
    kani::assume(nv.capacity() == newcap);
    unsafe {
        core::ptr::copy_nonoverlapping(v.as_ptr(), nv.as_mut_ptr(), len);
        nv.set_len(len);
    }
    *v = nv;
}

#[kani::proof]
fn exp_g1() {
    let vcap: usize = 8;
    let v: Vec<u8> = Vec::with_capacity(vcap);
    let vcap = v.capacity();
    let mut v = ManuallyDrop::new(v);
    let base = v.as_mut_ptr();
    let off: usize = kani::any();
    let len: usize = kani::any();
    kani::assume(off <= vcap && len <= vcap - off && off <= MAX_VEC_POS);
    let bcap = vcap - off;
    let data = (off << VEC_POS_OFFSET) | KIND_VEC;
    let mut b = BytesMut { ptr: vptr(unsafe { base.add(off) }), len, cap: bcap, data: invalid_ptr(data) };
    let i: usize = kani::any();
    kani::assume(i < len);
    let x: u8 = kani::any();
    unsafe { *b.ptr.as_ptr().add(i) = x; }
    let additional: usize = kani::any();
    kani::assume(additional <= 64);
    b.reserve(additional);
    assert!(b.capacity() - b.len() >= additional);
    assert!(b.len() == len);
    assert!(unsafe { *b.ptr.as_ptr().add(i) } == x);
    kani::cover!(b.ptr.as_ptr() as usize != base as usize + off, "moved");
    drop(b);
}
