use super::*;

// Bytes::slice on a hand-built SHARED-repr handle; symbolic cap, refcount, offset, len, range
#[kani::proof]
fn kx_slice_shared() {
    let cap: usize = kani::any();
    kani::assume(cap >= 1 && cap <= (1usize << 40));
    let mut v: Vec<u8> = Vec::with_capacity(cap);
    let mut v = ManuallyDrop::new(v);
    let buf = v.as_mut_ptr();
    let k: usize = kani::any();
    kani::assume(k >= 1 && k < usize::MAX >> 1);
    let shared = Box::into_raw(Box::new(Shared { buf, cap, ref_cnt: AtomicUsize::new(k) }));
    let off: usize = kani::any();
    let len: usize = kani::any();
    kani::assume(off <= cap && len <= cap - off);
    let b = Bytes { ptr: unsafe { buf.add(off) }, len, data: AtomicPtr::new(shared as *mut ()), vtable: &SHARED_VTABLE };
    let lo: usize = kani::any();
    let hi: usize = kani::any();
    kani::assume(lo <= hi && hi <= len);
    let s = b.slice(lo..hi);
    assert!(s.len == hi - lo);
    if hi > lo {
        assert!(s.ptr as usize == b.ptr as usize + lo);
        assert!(kani::mem::same_allocation(s.ptr, b.ptr));
        assert!(unsafe { (*shared).ref_cnt.load(Ordering::Relaxed) } == k + 1);
        assert!(s.vtable as *const Vtable == &SHARED_VTABLE as *const Vtable);
        assert!(s.data.load(Ordering::Relaxed) == shared as *mut ());
    } else {
        assert!(unsafe { (*shared).ref_cnt.load(Ordering::Relaxed) } == k);
    }
    assert!(b.len == len && b.ptr as usize == buf as usize + off);
    kani::cover!(hi > lo);
    core::mem::forget(s);
    core::mem::forget(b);
}
