use super::*;

/// Law-abiding BufMut over a fixed array; chunk length chosen by the solver.
struct AbsMut { mem: [u8; 32], pos: usize, end: usize, cut: usize }

unsafe impl BufMut for AbsMut {
    fn remaining_mut(&self) -> usize { self.end - self.pos }
    unsafe fn advance_mut(&mut self, cnt: usize) {
        assert!(cnt <= self.end - self.pos);
        self.pos += cnt;
    }
    fn chunk_mut(&mut self) -> &mut UninitSlice {
        let rem = self.end - self.pos;
        if rem == 0 { return UninitSlice::new(&mut self.mem[0..0]); }
        let mut k = self.cut;
        if k == 0 { k = 1; }
        if k > rem { k = rem; }
        let p = self.pos;
        UninitSlice::new(&mut self.mem[p..p + k])
    }
    // contract of the default put_slice (proved separately), used modularly by the typed puts
    fn put_slice(&mut self, src: &[u8]) {
        assert!(src.len() <= self.end - self.pos);
        let p = self.pos;
        self.mem[p..p + src.len()].copy_from_slice(src);
        self.pos += src.len();
    }
}

#[kani::proof]
fn kx_put_u64_le_modular() {
    let mut m = AbsMut { mem: kani::any(), pos: kani::any(), end: kani::any(), cut: kani::any() };
    kani::assume(m.pos <= m.end && m.end <= 32);
    let before = m.mem;
    let p = m.pos;
    kani::assume(m.end - m.pos >= 8);
    let v: u64 = kani::any();
    m.put_u64_le(v);
    assert!(m.pos == p + 8);
    let i: usize = kani::any();
    kani::assume(i < 32);
    if i >= p && i < p + 8 {
        assert!(m.mem[i] == v.to_le_bytes()[i - p]);
    } else {
        assert!(m.mem[i] == before[i]);
    }
}

#[kani::proof]
fn kx_put_int_modular() {
    let mut m = AbsMut { mem: kani::any(), pos: kani::any(), end: kani::any(), cut: kani::any() };
    kani::assume(m.pos <= m.end && m.end <= 32);
    let p = m.pos;
    let n: usize = kani::any();
    kani::assume(n <= 8 && m.end - m.pos >= n);
    let v: i64 = kani::any();
    m.put_int(v, n);
    assert!(m.pos == p + n);
    let i: usize = kani::any();
    kani::assume(i < n);
    assert!(m.mem[p + i] == v.to_be_bytes()[8 - n + i]);
}

/// same target but WITHOUT the put_slice override: exercises the default loop
struct AbsMut2 { mem: [u8; 16], pos: usize, end: usize, cut: usize }
unsafe impl BufMut for AbsMut2 {
    fn remaining_mut(&self) -> usize { self.end - self.pos }
    unsafe fn advance_mut(&mut self, cnt: usize) {
        assert!(cnt <= self.end - self.pos);
        self.pos += cnt;
    }
    fn chunk_mut(&mut self) -> &mut UninitSlice {
        let rem = self.end - self.pos;
        if rem == 0 { return UninitSlice::new(&mut self.mem[0..0]); }
        let mut k = self.cut;
        if k == 0 { k = 1; }
        if k > rem { k = rem; }
        let p = self.pos;
        UninitSlice::new(&mut self.mem[p..p + k])
    }
}

#[kani::proof]
#[kani::unwind(5)]
fn kx_put_slice_default_loop() {
    let mut m = AbsMut2 { mem: kani::any(), pos: kani::any(), end: kani::any(), cut: kani::any() };
    kani::assume(m.pos <= m.end && m.end <= 16);
    let before = m.mem;
    let p = m.pos;
    let src: [u8; 4] = kani::any();
    let n: usize = kani::any();
    kani::assume(n <= 4 && m.end - m.pos >= n);
    m.put_slice(&src[..n]);
    assert!(m.pos == p + n);
    let i: usize = kani::any();
    kani::assume(i < 16);
    if i >= p && i < p + n { assert!(m.mem[i] == src[i - p]); } else { assert!(m.mem[i] == before[i]); }
}
