use super::*;

#[kani::proof]
fn kx_copy_symlen() {
    let arr: [u8; 64] = kani::any();
    let n: usize = kani::any();
    kani::assume(n <= 64);
    let b = Bytes::copy_from_slice(&arr[..n]);
    assert!(b.len() == n);
    let i: usize = kani::any();
    kani::assume(i < n);
    assert!(unsafe { *b.ptr.add(i) } == arr[i]);
    core::mem::forget(b);
}
