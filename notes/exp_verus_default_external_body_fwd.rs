use vstd::prelude::*;
verus! {

pub uninterp spec fn spec_u16_be(s: Seq<u8>) -> u16;

pub trait Buf {
    spec fn seq(&self) -> Seq<u8>;

    fn remaining(&self) -> (r: usize)
        ensures r == self.seq().len();

    fn advance(&mut self, cnt: usize)
        requires cnt <= (*old(self)).seq().len()
        ensures (*final(self)).seq() == (*old(self)).seq().skip(cnt as int);

    // default body lives on the Kani side (macro + unsafe); contract imported
    #[verifier::external_body]
    fn get_u16(&mut self) -> (r: u16)
        requires (*old(self)).seq().len() >= 2
        ensures r == spec_u16_be((*old(self)).seq().take(2)), (*final(self)).seq() == (*old(self)).seq().skip(2)
    {
        unimplemented!()
    }
}

impl<T: Buf + ?Sized> Buf for &mut T {
    closed spec fn seq(&self) -> Seq<u8> { (**self).seq() }
    fn remaining(&self) -> (r: usize) {
        (**self).remaining()
    }
    fn advance(&mut self, cnt: usize) {
        (**self).advance(cnt)
    }
    fn get_u16(&mut self) -> (r: u16) {
        (**self).get_u16()
    }
}

impl<T: Buf + ?Sized> Buf for Box<T> {
    closed spec fn seq(&self) -> Seq<u8> { (**self).seq() }
    fn remaining(&self) -> (r: usize) {
        (**self).remaining()
    }
    fn advance(&mut self, cnt: usize) {
        (**self).advance(cnt)
    }
    fn get_u16(&mut self) -> (r: u16) {
        (**self).get_u16()
    }
}
}
fn main() {}
