use vstd::prelude::*;
use vstd::std_specs::cmp::*;
verus! {

#[derive(Debug)]
pub struct TryGetError { pub requested: usize, pub available: usize }

pub trait Buf {
    spec fn seq(&self) -> Seq<u8>;

    fn remaining(&self) -> (r: usize)
        ensures r == self.seq().len();

    fn chunk(&self) -> (r: &[u8])
        ensures r@.is_prefix_of(self.seq()), r@.len() == 0 <==> self.seq().len() == 0;

    fn advance(&mut self, cnt: usize)
        requires cnt <= old(self).seq().len()
        ensures final(self).seq() == old(self).seq().skip(cnt as int);

    fn try_copy_to_slice(&mut self, mut dst: &mut [u8]) -> (res: Result<(), TryGetError>)
        ensures
            old(self).seq().len() < old(dst)@.len() ==> res is Err && final(self).seq() == old(self).seq()
                && final(dst)@ == old(dst)@,
            old(self).seq().len() >= old(dst)@.len() ==> res is Ok
                && final(dst)@ == old(self).seq().take(old(dst)@.len() as int)
                && final(self).seq() == old(self).seq().skip(old(dst)@.len() as int),
    {
        if self.remaining() < dst.len() {
            return Err(TryGetError {
                requested: dst.len(),
                available: self.remaining(),
            });
        }

        while !dst.is_empty()
            invariant
                dst@.len() <= self.seq().len(),
                dst@.len() <= old(dst)@.len(),
                self.seq() == old(self).seq().skip(old(dst)@.len() - dst@.len()),
                old(self).seq().len() >= old(dst)@.len(),
                final(old(dst))@ == old(self).seq().subrange(0, old(dst)@.len() - dst@.len()) + final(dst)@,
            decreases dst@.len(),
        {
            let ghost k0 = old(dst)@.len() - dst@.len();
            let ghost s0 = old(self).seq();
            let ghost sb = self.seq();
            let ghost dfin = final(dst)@;
            let src = self.chunk();
            let cnt = usize::min(src.len(), dst.len());

            dst[..cnt].copy_from_slice(&src[..cnt]);
            let ghost mid = dst@;
            dst = &mut dst[cnt..];

            self.advance(cnt);
            proof {
                assert(cnt > 0);
                assert(dfin =~= mid.subrange(0, cnt as int) + final(dst)@);
                assert(mid.subrange(0, cnt as int) =~= sb.subrange(0, cnt as int));
                assert(sb.subrange(0, cnt as int) =~= s0.subrange(k0, k0 + cnt));
                assert(self.seq() =~= s0.skip(k0 + cnt));
                assert(s0.subrange(0, k0) + (s0.subrange(k0, k0 + cnt) + final(dst)@) =~= s0.subrange(0, k0 + cnt) + final(dst)@);
            }
        }
        proof {
            assert(old(self).seq().subrange(0, old(dst)@.len() as int) + final(dst)@ =~= old(self).seq().take(old(dst)@.len() as int)) by {
                assert(final(dst)@.len() == dst@.len());
            }
        }
        Ok(())
    }
}

} // verus!
fn main() {}
