use vstd::prelude::*;
use vstd::std_specs::cmp::*;
use core::cmp;
verus! {

pub assume_specification<T: core::cmp::Ord> [core::cmp::min] (a: T, b: T) -> (r: T)
    ensures T::obeys_cmp_spec() ==> r == (if a.cmp_spec(&b) == core::cmp::Ordering::Greater { b } else { a });

#[verifier::external_body]
pub struct UninitSlice { x: [u8] }

impl UninitSlice {
    pub uninterp spec fn spec_len(&self) -> nat;
    #[verifier::external_body]
    pub fn len(&self) -> (r: usize) ensures r == self.spec_len() { unimplemented!() }
}

impl core::ops::Index<core::ops::RangeTo<usize>> for UninitSlice {
    type Output = UninitSlice;
    #[verifier::external_body]
    fn index(&self, index: core::ops::RangeTo<usize>) -> (r: &UninitSlice)
        ensures index.end <= self.spec_len() ==> r.spec_len() == index.end
    { unimplemented!() }
}
impl core::ops::IndexMut<core::ops::RangeTo<usize>> for UninitSlice {
    #[verifier::external_body]
    fn index_mut(&mut self, index: core::ops::RangeTo<usize>) -> (r: &mut UninitSlice)
        ensures index.end <= old(self).spec_len() ==> r.spec_len() == index.end
    { unimplemented!() }
}

pub unsafe trait BufMut {
    spec fn rem(&self) -> nat;

    fn remaining_mut(&self) -> (r: usize)
        ensures r == self.rem();

    fn chunk_mut(&mut self) -> (r: &mut UninitSlice)
        ensures r.spec_len() <= old(self).rem(), r.spec_len() == 0 <==> old(self).rem() == 0;

    unsafe fn advance_mut(&mut self, cnt: usize)
        requires cnt <= old(self).rem()
        ensures final(self).rem() == old(self).rem() - cnt;
}

pub struct Limit<T> { inner: T, limit: usize }

unsafe impl<T: BufMut> BufMut for Limit<T> {
    closed spec fn rem(&self) -> nat { if self.inner.rem() < self.limit { self.inner.rem() } else { self.limit as nat } }

    fn remaining_mut(&self) -> (r: usize) {
        cmp::min(self.inner.remaining_mut(), self.limit)
    }

    fn chunk_mut(&mut self) -> (r: &mut UninitSlice) {
        let bytes = self.inner.chunk_mut();
        let end = cmp::min(bytes.len(), self.limit);
        &mut bytes[..end]
    }

    unsafe fn advance_mut(&mut self, cnt: usize) {
        assert!(cnt <= self.limit);
        self.inner.advance_mut(cnt);
        self.limit -= cnt;
    }
}

}
fn main() {}
