use super::*;

static mut AS_REF_CALLS: usize = 0;
static mut OWNER_DROPS: usize = 0;

struct Owner { data: [u8; 8], n: usize }
impl AsRef<[u8]> for Owner {
    fn as_ref(&self) -> &[u8] {
        unsafe { AS_REF_CALLS += 1; }
        &self.data[..self.n]
    }
}
impl Drop for Owner {
    fn drop(&mut self) { unsafe { OWNER_DROPS += 1; } }
}

#[kani::proof]
fn kx_from_owner() {
    let o = Owner { data: kani::any(), n: kani::any() };
    kani::assume(o.n <= 8);
    let n = o.n;
    let d = o.data;
    unsafe { AS_REF_CALLS = 0; OWNER_DROPS = 0; }
    let b = Bytes::from_owner(o);
    assert!(unsafe { AS_REF_CALLS } == 1);
    assert!(unsafe { OWNER_DROPS } == 0);
    assert!(b.len == n);
    assert!(b.vtable as *const Vtable == &OWNED_VTABLE as *const Vtable);
    let owned = b.data.load(Ordering::Relaxed);
    assert!(unsafe { (*owned.cast::<OwnedLifetime>()).ref_cnt.load(Ordering::Relaxed) } == 1);
    let i: usize = kani::any();
    kani::assume(i < n);
    assert!(unsafe { *b.ptr.add(i) } == d[i]);
    // drop: refcount 1 -> owner dropped exactly once, block freed
    drop(b);
    assert!(unsafe { OWNER_DROPS } == 1);
    assert!(unsafe { AS_REF_CALLS } == 1);
}
