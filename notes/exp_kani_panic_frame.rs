// child module of src/bytes.rs; run with: cargo kani -Z function-contracts --harness chk_split_off_oob
// measured: 1 of 1109 checks failed = bytes::Bytes::split_off.assertion.1 (bytes.rs:508), 64 s
use super::*;

// wrapper carrying the out-of-contract contract: bad `at` => never returns, writes nothing
#[kani::requires(at > b.len)]
#[kani::modifies()]
#[kani::ensures(|_| false)]
fn split_off_oob(b: &mut Bytes, at: usize) -> Bytes { b.split_off(at) }

#[kani::proof_for_contract(split_off_oob)]
fn chk_split_off_oob() {
    let cap: usize = kani::any();
    kani::assume(cap >= 1 && cap <= (1usize << 40));
    let mut v: Vec<u8> = Vec::with_capacity(cap);
    unsafe { v.set_len(cap) };
    let mut v = core::mem::ManuallyDrop::new(v);
    let buf = v.as_mut_ptr();
    let k: usize = kani::any();
    kani::assume(k >= 1 && k <= usize::MAX >> 1);
    let shared = Box::into_raw(Box::new(Shared { buf, cap, ref_cnt: AtomicUsize::new(k) }));
    let off: usize = kani::any();
    let len: usize = kani::any();
    kani::assume(off <= cap && len <= cap - off);
    let mut b = Bytes { ptr: unsafe { buf.add(off) }, len, data: AtomicPtr::new(shared as *mut ()), vtable: &SHARED_VTABLE };
    let at: usize = kani::any();
    let _ = split_off_oob(&mut b, at);
}
