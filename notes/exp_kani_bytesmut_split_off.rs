use super::*;

// BytesMut::split_off on an m-vec handle (promotion to shared with ref 2), symbolic sizes
#[kani::proof]
fn kx_mut_split_off_vec() {
    let vcap: usize = kani::any();
    kani::assume(vcap >= 1 && vcap <= (1usize << 40));
    let v: Vec<u8> = Vec::with_capacity(vcap);
    let vcap = v.capacity();
    let mut v = ManuallyDrop::new(v);
    let base = v.as_mut_ptr();
    let off: usize = kani::any();
    let len: usize = kani::any();
    kani::assume(off <= vcap && len <= vcap - off && off <= MAX_VEC_POS);
    let bcap = vcap - off;
    let repr: usize = kani::any();
    kani::assume(repr <= 7);
    let data = (off << VEC_POS_OFFSET) | (repr << ORIGINAL_CAPACITY_OFFSET) | KIND_VEC;
    let mut b = BytesMut { ptr: vptr(unsafe { base.add(off) }), len, cap: bcap, data: invalid_ptr(data) };
    let at: usize = kani::any();
    kani::assume(at <= bcap);
    let o = b.split_off(at);
    let p = base as usize + off;
    // regions
    assert!(b.ptr.as_ptr() as usize == p && b.cap == at && b.len == core::cmp::min(len, at));
    assert!(o.ptr.as_ptr() as usize == p + at && o.cap == bcap - at);
    assert!(o.len == if len > at { len - at } else { 0 });
    // same block, refcount 2, vec describes the whole allocation
    assert!(b.kind() == KIND_ARC && o.kind() == KIND_ARC && b.data == o.data);
    let sh = unsafe { &*b.data };
    assert!(sh.ref_count.load(Ordering::Relaxed) == 2);
    assert!(sh.vec.as_ptr() as usize == base as usize && sh.vec.capacity() == vcap);
    assert!(sh.original_capacity_repr == repr);
    kani::cover!(at > 0 && at < bcap);
    // drop both: allocation and block freed exactly once (Kani's own double-free / leak-free checks apply)
    drop(b);
    drop(o);
}
