use vstd::prelude::*;
use vstd::std_specs::cmp::*;
verus! {

#[derive(Debug)]
pub struct TryGetError { pub requested: usize, pub available: usize }

#[verifier::external_body]
fn panic_advance(error_info: &TryGetError) -> !
    requires false
{ panic!() }

fn saturating_sub_usize_u64(a: usize, b: u64) -> (r: usize)
    ensures r == (if a as int - b as int > 0 { a as int - b as int } else { 0 })
{
    use core::convert::TryFrom;
    match usize::try_from(b) {
        Ok(b) => a.saturating_sub(b),
        Err(_) => 0,
    }
}

fn min_u64_usize(a: u64, b: usize) -> (r: usize)
    ensures r == (if (a as int) < (b as int) { a as int } else { b as int })
{
    use core::convert::TryFrom;
    match usize::try_from(a) {
        Ok(a) => usize::min(a, b),
        Err(_) => b,
    }
}

pub trait Buf {
    spec fn seq(&self) -> Seq<u8>;
    fn remaining(&self) -> (r: usize)
        ensures r == self.seq().len();
    fn chunk(&self) -> (r: &[u8])
        ensures r@.is_prefix_of(self.seq()), r@.len() == 0 <==> self.seq().len() == 0;
    fn advance(&mut self, cnt: usize)
        requires cnt <= old(self).seq().len()
        ensures final(self).seq() == old(self).seq().skip(cnt as int);
}

// std::io::Cursor as an external type with assumed accessor contracts
#[verifier::external_type_specification]
#[verifier::external_body]
#[verifier::accept_recursive_types(T)]
pub struct ExCursor<T>(std::io::Cursor<T>);

pub uninterp spec fn cur_pos<T>(c: &std::io::Cursor<T>) -> u64;
pub uninterp spec fn cur_inner<T>(c: &std::io::Cursor<T>) -> T;

pub assume_specification<T> [std::io::Cursor::<T>::position] (c: &std::io::Cursor<T>) -> (r: u64)
    ensures r == cur_pos(c);
pub assume_specification<T> [std::io::Cursor::<T>::get_ref] (c: &std::io::Cursor<T>) -> (r: &T)
    ensures *r == cur_inner(c);
pub assume_specification<T> [std::io::Cursor::<T>::set_position] (c: &mut std::io::Cursor<T>, pos: u64)
    ensures cur_pos(final(c)) == pos, cur_inner(final(c)) == cur_inner(old(c));

// AsRef<[u8]>: user trait, pure view assumed (C17 treats impure impls)
// abstract representative of `T: AsRef<[u8]>` with a pure as_ref (impure impls: C17)
#[verifier::external_body]
pub struct AbsT { p: *const u8 }
pub uninterp spec fn as_ref_view(t: &AbsT) -> Seq<u8>;
impl AbsT {
    #[verifier::external_body]
    fn as_ref(&self) -> (r: &[u8]) ensures r@ == as_ref_view(self) { unimplemented!() }
}

impl Buf for std::io::Cursor<AbsT> {
    closed spec fn seq(&self) -> Seq<u8> {
        let s = as_ref_view(&cur_inner(self));
        if cur_pos(self) as int >= s.len() { Seq::empty() } else { s.skip(cur_pos(self) as int) }
    }

    fn remaining(&self) -> (r: usize) {
        saturating_sub_usize_u64(self.get_ref().as_ref().len(), self.position())
    }

    fn chunk(&self) -> (r: &[u8]) {
        let slice = self.get_ref().as_ref();
        let pos = min_u64_usize(self.position(), slice.len());
        &slice[pos..]
    }

    fn advance(&mut self, cnt: usize) {
        let len = self.get_ref().as_ref().len();
        let pos = self.position();

        // We intentionally allow `cnt == 0` here even if `pos > len`.
        let max_cnt = saturating_sub_usize_u64(len, pos);
        if cnt > max_cnt {
            panic_advance(&TryGetError {
                requested: cnt,
                available: max_cnt,
            });
        }

        // This will not overflow because either `cnt == 0` or the sum is not
        // greater than `len`.
        self.set_position(pos + cnt as u64);
    }
}

} // verus!
fn main() {}
