use vstd::prelude::*;
verus! {
fn f(mut dst: &mut [u8], src: &[u8], cnt: usize)
    requires cnt <= old(dst)@.len(), cnt <= src@.len(),
{
    let ghost n = dst@.len();
    let ghost fin0 = final(dst)@;
    dst[..cnt].copy_from_slice(&src[..cnt]);
    assert(dst@.len() == n);
    assert(dst@.subrange(0, cnt as int) =~= src@.subrange(0, cnt as int));
    let ghost mid = dst@;
    dst = &mut dst[cnt..];
    assert(dst@.len() == n - cnt);
    assert(dst@ =~= mid.subrange(cnt as int, n as int));
    assert(fin0 =~= mid.subrange(0, cnt as int) + final(dst)@);
}
}
fn main() {}
