use vstd::prelude::*;
use vstd::set_lib::*;
verus! {

pub struct Alloc { pub cap: nat, pub refcnt: nat, pub live: bool, pub holders: Set<int>, pub frees: nat }
pub struct Handle { pub alloc: int, pub off: nat, pub len: nat }

pub struct Ledger {
    pub allocs: Map<int, Alloc>,
    pub handles: Map<int, Handle>,   // live handles only
}

pub open spec fn inv(l: Ledger) -> bool {
    &&& forall |h: int| #[trigger] l.handles.dom().contains(h) ==> {
            let hd = l.handles[h];
            &&& l.allocs.dom().contains(hd.alloc)
            &&& l.allocs[hd.alloc].live
            &&& l.allocs[hd.alloc].holders.contains(h)
            &&& hd.off + hd.len <= l.allocs[hd.alloc].cap
        }
    &&& forall |a: int| #[trigger] l.allocs.dom().contains(a) ==> {
            let al = l.allocs[a];
            &&& al.holders.finite()
            &&& al.refcnt == al.holders.len()
            &&& (forall |h: int| al.holders.contains(h) ==> l.handles.dom().contains(h) && l.handles[h].alloc == a)
            &&& (al.live <==> al.holders.len() > 0)
            &&& (al.live ==> al.frees == 0)
            &&& (!al.live ==> al.frees == 1)
        }
}

// contract of `clone`/`slice`-like operations (refcount +1, new view inside old view)
pub open spec fn step_share(l: Ledger, h: int, nh: int, lo: nat, n: nat, l2: Ledger) -> bool {
    &&& l.handles.dom().contains(h)
    &&& !l.handles.dom().contains(nh)
    &&& lo + n <= l.handles[h].len
    &&& {
        let hd = l.handles[h];
        let al = l.allocs[hd.alloc];
        &&& l2.handles == l.handles.insert(nh, Handle { alloc: hd.alloc, off: hd.off + lo, len: n })
        &&& l2.allocs == l.allocs.insert(hd.alloc, Alloc { refcnt: al.refcnt + 1, holders: al.holders.insert(nh), ..al })
    }
}

// contract of drop / release: refcount -1, frees iff it was 1
pub open spec fn step_drop(l: Ledger, h: int, l2: Ledger) -> bool {
    &&& l.handles.dom().contains(h)
    &&& {
        let hd = l.handles[h];
        let al = l.allocs[hd.alloc];
        &&& l2.handles == l.handles.remove(h)
        &&& l2.allocs == l.allocs.insert(hd.alloc, Alloc {
                refcnt: (al.refcnt - 1) as nat,
                holders: al.holders.remove(h),
                live: al.refcnt != 1,
                frees: if al.refcnt == 1 { al.frees + 1 } else { al.frees },
                ..al })
    }
}

pub proof fn lemma_share_preserves(l: Ledger, h: int, nh: int, lo: nat, n: nat, l2: Ledger)
    requires inv(l), step_share(l, h, nh, lo, n, l2)
    ensures inv(l2)
{
    let hd = l.handles[h];
    let a0 = hd.alloc;
    assert(l.allocs.dom().contains(a0));
    assert forall |a: int| #[trigger] l2.allocs.dom().contains(a) implies {
            let al = l2.allocs[a];
            &&& al.holders.finite()
            &&& al.refcnt == al.holders.len()
            &&& (forall |x: int| al.holders.contains(x) ==> l2.handles.dom().contains(x) && l2.handles[x].alloc == a)
            &&& (al.live <==> al.holders.len() > 0)
            &&& (al.live ==> al.frees == 0)
            &&& (!al.live ==> al.frees == 1)
    } by {
        if a == a0 {
            assert(!l.allocs[a0].holders.contains(nh));
        } else {
            assert(l.allocs.dom().contains(a));
        }
    }
    assert forall |x: int| #[trigger] l2.handles.dom().contains(x) implies {
            let xd = l2.handles[x];
            &&& l2.allocs.dom().contains(xd.alloc)
            &&& l2.allocs[xd.alloc].live
            &&& l2.allocs[xd.alloc].holders.contains(x)
            &&& xd.off + xd.len <= l2.allocs[xd.alloc].cap
    } by {
        if x != nh { assert(l.handles.dom().contains(x)); }
    }
}

pub proof fn lemma_drop_preserves(l: Ledger, h: int, l2: Ledger)
    requires inv(l), step_drop(l, h, l2)
    ensures
        inv(l2),
        // freed exactly when the last handle goes
        !l2.allocs[l.handles[h].alloc].live <==> (forall |x: int| l2.handles.dom().contains(x) ==> l2.handles[x].alloc != l.handles[h].alloc),
{
    let hd = l.handles[h];
    let a0 = hd.alloc;
    let al = l.allocs[a0];
    assert(l.allocs.dom().contains(a0));
    assert(al.holders.contains(h));
    assert forall |a: int| #[trigger] l2.allocs.dom().contains(a) implies {
            let al = l2.allocs[a];
            &&& al.holders.finite()
            &&& al.refcnt == al.holders.len()
            &&& (forall |x: int| al.holders.contains(x) ==> l2.handles.dom().contains(x) && l2.handles[x].alloc == a)
            &&& (al.live <==> al.holders.len() > 0)
            &&& (al.live ==> al.frees == 0)
            &&& (!al.live ==> al.frees == 1)
    } by {
        if a == a0 {
        } else {
            assert(l.allocs.dom().contains(a));
        }
    }
    assert forall |x: int| #[trigger] l2.handles.dom().contains(x) implies {
            let xd = l2.handles[x];
            &&& l2.allocs.dom().contains(xd.alloc)
            &&& l2.allocs[xd.alloc].live
            &&& l2.allocs[xd.alloc].holders.contains(x)
            &&& xd.off + xd.len <= l2.allocs[xd.alloc].cap
    } by {
        assert(l.handles.dom().contains(x));
        if l.handles[x].alloc == a0 {
            assert(al.holders.remove(h).contains(x));
            assert(al.holders.len() >= 2) by {
                lemma_set_two(al.holders, h, x);
            }
        }
    }
    if !l2.allocs[a0].live {
        assert(l2.allocs[a0].holders.len() == 0);
        assert forall |x: int| l2.handles.dom().contains(x) implies l2.handles[x].alloc != a0 by {
            if l2.handles[x].alloc == a0 {
                assert(l.handles.dom().contains(x));
                assert(l2.allocs[a0].holders.contains(x));
                assert(l2.allocs[a0].holders.len() > 0) by { lemma_nonempty(l2.allocs[a0].holders, x); }
            }
        }
    } else {
        let w = l2.allocs[a0].holders.choose();
        assert(l2.allocs[a0].holders.contains(w));
        assert(l2.handles.dom().contains(w) && l2.handles[w].alloc == a0);
    }
}

pub proof fn lemma_nonempty(s: Set<int>, x: int)
    requires s.finite(), s.contains(x)
    ensures s.len() > 0
{
    if s.len() == 0 { assert(s =~= Set::empty()); }
}

pub proof fn lemma_set_two(s: Set<int>, a: int, b: int)
    requires s.finite(), s.contains(a), s.contains(b), a != b
    ensures s.len() >= 2
{
    let s1 = s.remove(a);
    assert(s1.contains(b));
    lemma_nonempty(s1, b);
}

// arbitrary histories: induction over a sequence of steps
pub enum Op { Share { h: int, nh: int, lo: nat, n: nat }, Drop { h: int } }

pub open spec fn step(l: Ledger, op: Op, l2: Ledger) -> bool {
    match op {
        Op::Share { h, nh, lo, n } => step_share(l, h, nh, lo, n, l2),
        Op::Drop { h } => step_drop(l, h, l2),
    }
}

pub open spec fn run(states: Seq<Ledger>, ops: Seq<Op>) -> bool {
    &&& states.len() == ops.len() + 1
    &&& forall |i: int| 0 <= i < ops.len() ==> #[trigger] step(states[i], ops[i], states[i + 1])
}

pub proof fn theorem_all_histories(states: Seq<Ledger>, ops: Seq<Op>, k: int)
    requires run(states, ops), inv(states[0]), 0 <= k <= ops.len()
    ensures inv(states[k])
    decreases k
{
    if k > 0 {
        theorem_all_histories(states, ops, k - 1);
        assert(step(states[k - 1], ops[k - 1], states[k - 1 + 1]));
        match ops[k - 1] {
            Op::Share { h, nh, lo, n } => lemma_share_preserves(states[k - 1], h, nh, lo, n, states[k]),
            Op::Drop { h } => lemma_drop_preserves(states[k - 1], h, states[k]),
        }
    }
}

} // verus!
fn main() {}
